# C18 P1 - GraphEngine::find_path (breadth-first shortest path) executed from graph_engine's MIR over the key/value contract of the
# store (the graph model of C05: node / edge records and adjacency lists as store entries).  exec'd by c18.py; shares ck / ex / P.
import itertools
from mirsym.models import some, none, ok as _ok, err as _err, deref
from mirsym.models_iter import map_find, map_insert

F = P.field
T = ck.tier
_src = open(os.path.join(os.path.dirname(os.path.abspath(__file__)), 'c05.py')).read()
_a, _b = _src.index('U64 = lambda v'), _src.index('EDGE_SETS = [')
exec(compile(_src[_a:_b], 'c05.py[graph model]', 'exec'))        # key_str, store models, Graph, engine, snapshot, run ...
ex.unroll = 24
ex.default_maxlen = 1

ck.assumptions += [
    'P1: the store is its key/value contract; node/edge records and adjacency lists are store entries built as create_node / create_edge build them (C05 decides that those operations keep this shape)',
    'P1: no traversal filter (filter = None); HashSet / HashMap / VecDeque are finite association lists / sequences',
]
N_NODES = 3
PAIRS = [(a, b) for a in range(N_NODES) for b in range(N_NODES)]
ONE = [[p] for p in PAIRS]
TWO = [[p, q] for i, p in enumerate(PAIRS) for q in PAIRS[i:]]
# quick: every one-edge graph and the two-edge graphs that chain, oppose, double or loop; thorough: every two-edge multigraph on three nodes
CURATED = [[(0, 1), (1, 2)], [(0, 1), (2, 1)], [(1, 0), (1, 2)], [(0, 1), (1, 0)], [(0, 1), (0, 1)], [(0, 0), (0, 1)], [(0, 2), (2, 1)], [(1, 1), (0, 1)], [(0, 1), (0, 2)]]
GRAPHS = [[]] + ONE + (CURATED if T == 'quick' else TWO)
THREE = [[p, q, r_] for i, p in enumerate(PAIRS) for j, q in enumerate(PAIRS[i:], i) for r_ in PAIRS[j:]] if T != 'quick' else [[(0, 1), (1, 2), (0, 2)]]      # thorough: every three-edge multigraph
GRAPHS += THREE
ck.bounds['find_path graphs'] = f'{N_NODES} nodes (concrete distinct ids), {len(GRAPHS)} edge multisets of 0..3 edges (self-loops, parallel and opposed edges) x every direction-flag assignment; from / to symbolic u64'
ck.declare('P1_find_path_is_a_shortest_directed_walk', f'find_path(from, to, None) with symbolic from / to on {len(GRAPHS)} edge multisets over {N_NODES} nodes x all direction flags',
           'Ok(path) => path runs from `from` to `to`, every step uses the listed edge forwards (or either way when it is undirected), and no walk with fewer hops exists; '
           'PathNotFound => no directed walk exists; NodeNotFound => that argument is not a node')


def ref_dist(nn, es, dirs):
    """hop distances on the concrete graph: directed edges forwards, undirected both ways"""
    INF = 99
    d = [[INF] * nn for _ in range(nn)]
    for s in range(nn):
        d[s][s] = 0
        frontier = [s]
        while frontier:
            nxt = []
            for c in frontier:
                for j, (a, b) in enumerate(es):
                    for (x, y) in ([(a, b)] if dirs[j] else [(a, b), (b, a)]):
                        if x == c and d[s][y] == INF:
                            d[s][y] = d[s][c] + 1
                            nxt.append(y)
            frontier = nxt
    return d


def path_case(case):
    es, dirs = case[0], case[1]
    N_NODES = case[2] if len(case) > 2 else 3
    st = ex.new_state()
    G = Graph(st, N_NODES, es, concrete=True)
    G.add_lists(st, dirs)
    ge = engine(st)
    a1, a2 = z3.BitVec('arg1', 64), z3.BitVec('arg2', 64)
    st.assume(z3.ULT(a1, U64(1 << 59)))
    st.assume(z3.ULT(a2, U64(1 << 59)))
    res = run(st, 'GraphEngine::find_path', [ref(ge), Int(a1, False), Int(a2, False), none('Option<&TraversalFilter>')])
    ck.note_path_problem(res, f'find_path edges={es} dirs={dirs}')
    dist = ref_dist(N_NODES, es, dirs)
    is_node = lambda x: z3.Or([x == n for n in G.nid])
    found = 0
    for r in res:
        wit = lambda m, es=es, dirs=dirs, G=G: {'graph_call': 'find_path', 'nodes': [mval(m, x) for x in G.nid], 'edges': [[a, b, mval(m, G.eid[j]), dirs[j]] for j, (a, b) in enumerate(es)],
                                                'arg1': mval(m, a1), 'arg2': mval(m, a2)}
        if r.status == 'panic':
            ck.require(ex, 'P1_find_path_is_a_shortest_directed_walk', r.pc, None, z3.BoolVal(False), wit, lambda m, w: 'find-path-panic')
            continue
        if r.status != 'return':
            continue
        rv = r.retval
        if rv.variant == 'Err':
            e = rv.fields[('Err', 0)]
            if e.variant == 'NodeNotFound':
                x = e.fields[('NodeNotFound', 0)].v
                concl = z3.And(z3.Not(is_node(x)), z3.Or(x == a1, x == a2))
            elif e.variant == 'PathNotFound':
                concl = z3.And([z3.Implies(z3.And(a1 == G.nid[s], a2 == G.nid[t]), z3.BoolVal(dist[s][t] == 99)) for s in range(N_NODES) for t in range(N_NODES)] + [is_node(a1), is_node(a2)])
            else:
                concl = z3.BoolVal(False)
            ck.require(ex, 'P1_find_path_is_a_shortest_directed_walk', r.pc, None, concl, wit, lambda m, w: 'find-path-refused')
            continue
        found += 1
        p = rv.fields[('Ok', 0)]
        nodes = [x.v for x in p.load(F('Path', 'nodes'), None, r.st).items(r.st)]
        edges = [x.v for x in p.load(F('Path', 'edges'), None, r.st).items(r.st)]
        cs = [z3.BoolVal(len(nodes) == len(edges) + 1 and len(nodes) >= 1)]
        if nodes:
            cs += [nodes[0] == a1, nodes[-1] == a2]
        for i in range(min(len(edges), len(nodes) - 1)):
            alts = []
            for j, (a, b) in enumerate(es):
                fwd = z3.And(nodes[i] == G.nid[a], nodes[i + 1] == G.nid[b])
                back = z3.And(nodes[i] == G.nid[b], nodes[i + 1] == G.nid[a]) if not dirs[j] else z3.BoolVal(False)
                alts.append(z3.And(edges[i] == G.eid[j], z3.Or(fwd, back)))
            cs.append(z3.Or(alts) if alts else z3.BoolVal(False))
        cs += [z3.Implies(z3.And(a1 == G.nid[s], a2 == G.nid[t]), z3.BoolVal(dist[s][t] == len(edges))) for s in range(N_NODES) for t in range(N_NODES)]
        ck.require(ex, 'P1_find_path_is_a_shortest_directed_walk', r.pc, None, z3.And(cs), wit, lambda m, w: 'find-path-walks-a-directed-edge-backwards' if True else '')
    return found


_cases = [(es, dirs) for es in GRAPHS for dirs in itertools.product((True, False), repeat=len(es))]
# four nodes (after seed c18a: a sibling that re-discovers a queued node needs a diamond with a tail): curated shapes in both sibling
# orders x every direction flag; thorough adds every directed simple graph with up to four edges
FOUR = [[(0, 1), (0, 2), (1, 2), (2, 3)], [(0, 2), (0, 1), (1, 2), (2, 3)], [(0, 1), (0, 2), (2, 1), (1, 3)], [(0, 1), (1, 2), (2, 3), (0, 3)], [(0, 1), (1, 2), (2, 3)], [(1, 0), (2, 1), (3, 2)]]
_cases += [(es, dirs, 4) for es in FOUR for dirs in itertools.product((True, False), repeat=len(es))]
if T != 'quick':
    _p4 = [(a, b) for a in range(4) for b in range(4) if a != b]
    _cases += [(list(es), (True,) * len(es), 4) for k in range(1, 5) for es in itertools.combinations(_p4, k)]
    _cases += [(list(es), (True,) * 4, 4) for es in itertools.permutations([(0, 1), (0, 2), (1, 2), (2, 3)])]      # every creation order of the diamond with a tail
ck.bounds['find_path graphs'] += f'; plus {len(_cases) - sum(1 for c in _cases if len(c) == 2)} four-node graphs'
_nw = 16 if T != 'quick' else 4
_found = ck.parallel([_cases[i::_nw] for i in range(_nw)], lambda chunk: sum(path_case(c) for c in chunk), jobs=_nw)
if not sum(f or 0 for f in _found):
    ck.inconclusive.append('P1 vacuous: find_path never returned a path')
ck.notes.append(f'find_path: {len(_cases)} graphs, {sum(f or 0 for f in _found)} paths returned a walk')
ck.functions += ['GraphEngine::find_path', 'GraphEngine::reconstruct_path', 'GraphEngine::get_edge_list', 'GraphEngine::get_edge', 'GraphEngine::node_exists']

# ------------------------------------------------------------------ P2: find_variable_paths returns exactly the walks within the hop bounds
HOPS = [(1, 2), (2, 3), (1, 3)] if T == 'quick' else [(0, 2), (1, 1), (1, 2), (2, 2), (1, 3), (2, 3), (3, 3)]
VGRAPHS = [[(0, 1)], [(0, 1), (1, 2)], [(0, 1), (1, 0)], [(0, 1), (1, 1)], [(0, 1), (0, 1)], [(0, 1), (1, 2), (2, 0)]] + ([[(0, 1), (1, 2), (0, 2)], [(0, 0), (0, 1)], [(0, 1), (1, 2), (2, 1)]] if T != 'quick' else [])
ck.bounds['find_variable_paths'] = f'{len(VGRAPHS)} edge multisets over {N_NODES} nodes x all direction flags, hop windows {HOPS}, allow_cycles both, direction Outgoing, no type / property filter, max_paths 1000; from / to symbolic'
ck.declare('P2_variable_paths_are_exactly_the_walks_in_bounds', f'find_variable_paths(from, to, cfg) on {len(VGRAPHS)} edge multisets x direction flags x {len(HOPS)} hop windows x allow_cycles',
           'the returned edge sequences are exactly the walks from `from` to `to` whose length lies in [min_hops, max_hops] (directed edges forwards, undirected either way); with allow_cycles = false exactly those that repeat no node; no duplicates')
FV = lambda n: P.field('VariableLengthConfig', n)


def ref_walks(nn, es, dirs, s, t, lo, hi, cycles):
    out = set()

    def go(cur, nodes, edges):
        if lo <= len(edges) <= hi and cur == t:
            out.add(tuple(edges))
        if len(edges) == hi:
            return
        for j, (a, b) in enumerate(es):
            for (x, y) in ([(a, b)] if dirs[j] or a == b else [(a, b), (b, a)]):
                if x == cur and (cycles or y not in nodes):
                    go(y, nodes + [y], edges + [j])
    go(s, [s], [])
    return out


def vpath_case(case):
    es, dirs, (lo, hi), cycles = case
    st = ex.new_state()
    G = Graph(st, N_NODES, es, concrete=True)
    G.add_lists(st, dirs)
    ge = engine(st)
    ge.fields[F('GraphEngine', 'config')] = Struct('GraphEngineConfig', {P.field('GraphEngineConfig', 'max_path_search_memory_bytes'): Int(z3.BitVecVal(1 << 40, 64), False)}, lazy='GECFG')
    a1, a2 = z3.BitVec('arg1', 64), z3.BitVec('arg2', 64)
    for s_ in (a1, a2):
        st.assume(z3.Or([s_ == n for n in G.nid]))
    cfg = Struct('VariableLengthConfig', {FV('min_hops'): Int(z3.BitVecVal(lo, 64), False), FV('max_hops'): Int(z3.BitVecVal(hi, 64), False),
                                          FV('direction'): Enum('Direction', P.variant_index('Direction', 'Outgoing'), {}, variant='Outgoing'), FV('edge_types'): none('Option<Vec<String>>'),
                                          FV('max_paths'): Int(z3.BitVecVal(1000, 64), False), FV('allow_cycles'): z3.BoolVal(cycles), FV('filter'): none('Option<TraversalFilter>')})
    res = run(st, 'GraphEngine::find_variable_paths', [ref(ge), Int(a1, False), Int(a2, False), cfg])
    ck.note_path_problem(res, f'find_variable_paths edges={es} dirs={dirs} hops={lo}..{hi} cycles={cycles}')
    n_ok = 0
    for r in res:
        wit = lambda m, G=G: {'graph_call': 'find_variable_paths', 'nodes': [mval(m, x) for x in G.nid], 'edges': [[a, b, mval(m, G.eid[j]), dirs[j]] for j, (a, b) in enumerate(es)],
                              'arg1': mval(m, a1), 'arg2': mval(m, a2), 'min_hops': lo, 'max_hops': hi, 'allow_cycles': cycles}
        if r.status == 'panic':
            ck.require(ex, 'P2_variable_paths_are_exactly_the_walks_in_bounds', r.pc, None, z3.BoolVal(False), wit, lambda m, w: 'variable-paths-panic')
            continue
        if r.status != 'return':
            continue
        if r.retval.variant != 'Ok':
            ck.require(ex, 'P2_variable_paths_are_exactly_the_walks_in_bounds', r.pc, None, z3.BoolVal(False), wit, lambda m, w: 'variable-paths-refused')
            continue
        n_ok += 1
        out = r.retval.fields[('Ok', 0)].load(P.field('VariableLengthPaths', 'paths'), None, r.st).items(r.st)
        got = []
        for p_ in out:
            p_ = p_.load(r.st) if isinstance(p_, Ptr) else p_
            got.append([x.v for x in p_.load(F('Path', 'edges'), None, r.st).items(r.st)])
        # edge ids are concrete here: read the sequences back as indices
        eidx = {z3.simplify(e).as_long(): j for j, e in enumerate(G.eid)}
        try:
            got_idx = [tuple(eidx[z3.simplify(x).as_long()] for x in seq) for seq in got]
        except (KeyError, AttributeError):
            ck.require(ex, 'P2_variable_paths_are_exactly_the_walks_in_bounds', r.pc, None, z3.BoolVal(False), wit, lambda m, w: 'variable-paths-unknown-edge')
            continue
        cs = []
        for s_ in range(N_NODES):
            for t_ in range(N_NODES):
                want = ref_walks(N_NODES, es, dirs, s_, t_, lo, hi, cycles)
                cs.append(z3.Implies(z3.And(a1 == G.nid[s_], a2 == G.nid[t_]), z3.BoolVal(set(got_idx) == want and len(got_idx) == len(set(got_idx)))))
        ck.require(ex, 'P2_variable_paths_are_exactly_the_walks_in_bounds', r.pc, None, z3.And(cs), wit, lambda m, w: 'variable-paths-differ-from-the-walks-in-bounds')
    return n_ok


_vcases = [(es, dirs, hops, cyc) for es in VGRAPHS for dirs in itertools.product((True, False), repeat=len(es)) for hops in HOPS for cyc in (False, True)]
_vfound = ck.parallel([_vcases[i::8] for i in range(8)], lambda chunk: sum(vpath_case(c) for c in chunk), jobs=8 if T != 'quick' else 4)
if not sum(f or 0 for f in _vfound):
    ck.inconclusive.append('P2 vacuous: find_variable_paths never returned')
ck.notes.append(f'find_variable_paths: {len(_vcases)} cases')
ck.functions += ['GraphEngine::find_variable_paths', 'GraphEngine::find_paths_dfs_backtrack', 'GraphEngine::get_variable_path_neighbors_filtered']

# ------------------------------------------------------------------ P3: the weight A* uses for a step is the cheapest connecting edge
# astar_path relaxes a neighbour with the pair get_astar_edge_weight(current, neighbour, ...) returns.  Executed from MIR on two nodes
# joined by 1..2 parallel edges whose `weight` property is a symbolic finite non-negative f64: the weight returned must be the least
# weight of a connecting edge (otherwise the reported path is not a cheapest one), and the edge id that of an edge with that weight.
ck.declare('P3_astar_step_uses_the_cheapest_parallel_edge', 'get_astar_edge_weight(from, to, Some("weight"), default, None, Outgoing) with 1..2 parallel directed edges from -> to, weights symbolic finite f64 >= 0',
           'the returned weight is the minimum weight over the connecting edges and the returned edge carries it')


def tv_float(x):
    return Enum('TensorValue', P.variant_index('TensorValue', 'Scalar'), {('Scalar', 0): Enum('ScalarValue', P.variant_index('ScalarValue', 'Float'), {('Float', 0): Flt(x)}, variant='Float')}, variant='Scalar')


_p3 = 0
for npar in (1, 2):
    st = ex.new_state()
    es = [(0, 1)] * npar
    G = Graph(st, 2, es, concrete=True)
    ws = [z3.FP(f'w{j}', z3.Float64()) for j in range(npar)]
    for j, w_ in enumerate(ws):
        st.assume(z3.And(z3.Not(z3.fpIsNaN(w_)), z3.Not(z3.fpIsInf(w_)), z3.fpGEQ(w_, z3.FPVal(0.0, z3.Float64()))))
        rec_ = G.vals[2 + j].fields['f']
        rec_.keys.append(Str(text='weight'))
        rec_.vals.append(tv_float(w_))
    G.add_lists(st, (True,) * npar)
    ge = engine(st)
    dflt = z3.FP('default_weight', z3.Float64())
    res = run(st, 'GraphEngine::get_astar_edge_weight', [ref(ge), Int(G.nid[0], False), Int(G.nid[1], False), some(Str(text='weight'), 'Option<&str>'), Flt(dflt), none('Option<&str>'),
                                                         Enum('Direction', P.variant_index('Direction', 'Outgoing'), {}, variant='Outgoing')])
    ck.note_path_problem(res, f'get_astar_edge_weight parallel={npar}')
    for r in res:
        wit = lambda m, npar=npar, ws=ws: {'graph_call': 'astar_parallel', 'weight_bits': [mval(m, z3.fpToIEEEBV(w_)) for w_ in ws]}
        if r.status == 'panic':
            ck.require(ex, 'P3_astar_step_uses_the_cheapest_parallel_edge', r.pc, None, z3.BoolVal(False), wit, lambda m, w: 'astar-weight-panic')
            continue
        if r.status != 'return':
            continue
        _p3 += 1
        got_w, got_e = r.retval.fields[0], r.retval.fields[1]
        gw = got_w.v if isinstance(got_w, Flt) else got_w
        is_min = z3.And([z3.fpLEQ(gw, w_) for w_ in ws] + [z3.Or([z3.And(z3.fpEQ(gw, w_), got_e.v == G.eid[j]) for j, w_ in enumerate(ws)])])
        ck.require(ex, 'P3_astar_step_uses_the_cheapest_parallel_edge', r.pc, None, is_min, wit, lambda m, w: 'astar-first-parallel-edge-not-the-cheapest',
                   prefer=z3.And([w_ == z3.FPVal(10.0 - 9 * j, z3.Float64()) for j, w_ in enumerate(ws)]))
if _p3 == 0:
    ck.inconclusive.append('P3 vacuous: get_astar_edge_weight never returned')
ck.functions += ['GraphEngine::get_astar_edge_weight']

# ------------------------------------------------------------------ P4: count_triangles agrees with the textbook count
# The counting kernel of count_triangles from MIR: the node list and every node's neighbour list come from stubs describing a concrete
# undirected simple graph on four nodes, the node IDS are symbolic and distinct (the kernel orders edges by degree and candidates by id,
# so the verdict depends on how the two orders relate).  Clustering coefficients (floating point) are not judged.
TRI_GRAPHS = [[], [(0, 1), (1, 2), (0, 2)], [(0, 1), (1, 2), (0, 2), (0, 3)], [(0, 1), (1, 2), (0, 2), (2, 3)], [(0, 1), (1, 2), (2, 3)], [(0, 1), (1, 2), (0, 2), (1, 3), (2, 3)],
              [(0, 1), (0, 2), (0, 3), (1, 2), (1, 3), (2, 3)]]
if T != 'quick':
    _all = [(a, b) for a in range(4) for b in range(a + 1, 4)]
    TRI_GRAPHS = [[e for k, e in enumerate(_all) if mask >> k & 1] for mask in range(64)]
ck.bounds['count_triangles'] = f'{len(TRI_GRAPHS)} undirected simple graphs on 4 nodes, node ids symbolic distinct u64 (every relative order), neighbour lists in list order'
ck.declare('P4_triangle_count_is_the_number_of_triangles', f'count_triangles (undirected) on {len(TRI_GRAPHS)} graphs on 4 nodes with symbolic node ids',
           'triangle_count equals the number of node triples that are pairwise adjacent, and every node is credited with the triangles through it')


def tri_case(es):
    st = ex.new_state()
    ids = [z3.BitVec(f'tn{i}', 64) for i in range(4)]
    st.assume(z3.Distinct(*ids))
    nb = {i: [] for i in range(4)}
    for (a, b) in es:
        nb[a].append(b)
        nb[b].append(a)

    def ov_neighbors(c):
        nid = c.args[1].v
        ks = [i for i in range(4) if z3.is_true(z3.simplify(nid == ids[i]))]
        if len(ks) != 1:
            raise Unsupported('neighbour list of an unknown node')
        return _ok(Seq('u64', [Int(ids[j], False) for j in nb[ks[0]]]), 'Result<Vec<u64>, GraphError>')
    saved = dict(ex.extra_models)
    ex.extra_models.update({'GraphEngine::get_all_node_ids': lambda c: _ok(Seq('u64', [Int(x, False) for x in ids]), 'Result<Vec<u64>, GraphError>'),
                            'GraphEngine::get_triangle_neighbor_ids': ov_neighbors, 'triangles::get_triangle_neighbor_ids': ov_neighbors})
    try:
        cfg = Struct('TriangleConfig', {P.field('TriangleConfig', 'edge_type'): none('Option<String>'), P.field('TriangleConfig', 'undirected'): z3.BoolVal(True)})
        res = run(st, 'GraphEngine::count_triangles', [ref(Struct('GraphEngine', {}, lazy='GE')), ref(cfg)])
    finally:
        ex.extra_models.clear()
        ex.extra_models.update(saved)
    ck.note_path_problem(res, f'count_triangles edges={es}')
    adj = lambda a, b: (a, b) in es or (b, a) in es
    tris = [(a, b, c) for a in range(4) for b in range(a + 1, 4) for c in range(b + 1, 4) if adj(a, b) and adj(b, c) and adj(a, c)]
    n_ok = 0
    for r in res:
        wit = lambda m, es=es: {'graph_call': 'count_triangles', 'n': 4, 'edges': [list(e) for e in es], 'node_ids': [mval(m, x) for x in ids]}
        if r.status == 'panic':
            ck.require(ex, 'P4_triangle_count_is_the_number_of_triangles', r.pc, None, z3.BoolVal(False), wit, lambda m, w: 'triangles-panic')
            continue
        if r.status != 'return' or r.retval.variant != 'Ok':
            continue
        n_ok += 1
        tr = r.retval.fields[('Ok', 0)]
        cnt = tr.load(P.field('TriangleResult', 'triangle_count'), None, r.st).v
        ck.require(ex, 'P4_triangle_count_is_the_number_of_triangles', r.pc, None, cnt == z3.BitVecVal(len(tris), 64), wit, lambda m, w: 'triangle-counted-more-than-once')
    return n_ok


_tfound = ck.parallel([TRI_GRAPHS[i::8] for i in range(8)], lambda chunk: sum(tri_case(e) for e in chunk), jobs=8 if T != 'quick' else 4)
if not sum(f or 0 for f in _tfound):
    ck.inconclusive.append('P4 vacuous: count_triangles never returned')
ck.functions += ['GraphEngine::count_triangles']

# ------------------------------------------------------------------ P5: find_weighted_path returns a cheapest directed walk
# Dijkstra's search from MIR on the graph model, with BinaryHeap as a sequence whose pop selects a maximum by calling
# <DijkstraEntry as Ord>::cmp from MIR (O1-O3 decide that order).  Edge weights are symbolic f64 taken from a small set of exactly
# representable values (so that sums along a walk are exact and the reference minimum is well defined); from / to symbolic.
WVALS = [0.0, 1.0, 2.0] if T == 'quick' else [0.0, 1.0, 2.0, 4.0]
WGRAPHS = [[(0, 1)], [(0, 1), (0, 1)], [(0, 1), (1, 2)], [(0, 1), (1, 2), (0, 2)], [(0, 2), (0, 1), (1, 2)], [(1, 0), (1, 2), (0, 2)]] + ([[(0, 1), (1, 0), (1, 2)], [(0, 1), (1, 2), (2, 0)], [(0, 1), (0, 1), (1, 2)]] if T != 'quick' else [])
ck.bounds['find_weighted_path'] = f'{len(WGRAPHS)} edge multisets over 3 nodes x direction flags; every weight symbolic in {WVALS}; from / to symbolic'
ck.declare('P5_weighted_path_is_a_cheapest_directed_walk', f'find_weighted_path(from, to, "weight") on {len(WGRAPHS)} edge multisets x direction flags, weights symbolic in {WVALS}',
           'Ok(path) => a directed walk from `from` to `to` along the listed edges whose weights add up to total_weight, and no walk is cheaper; PathNotFound => no directed walk')


def wpath_case(case):
    es, dirs = case[0], case[1]
    NW = case[2] if len(case) > 2 else 3
    wvals = case[3] if len(case) > 3 else WVALS
    st = ex.new_state()
    G = Graph(st, NW, es, concrete=True)
    ws = [z3.FP(f'w{j}', z3.Float64()) for j in range(len(es))]
    for j, w_ in enumerate(ws):
        st.assume(z3.Or([w_ == z3.FPVal(x, z3.Float64()) for x in wvals]))
        rec_ = G.vals[NW + j].fields['f']
        rec_.keys.append(Str(text='weight'))
        rec_.vals.append(tv_float(w_))
    G.add_lists(st, dirs)
    ge = engine(st)
    a1, a2 = z3.BitVec('arg1', 64), z3.BitVec('arg2', 64)
    for s_ in (a1, a2):
        st.assume(z3.Or([s_ == n for n in G.nid]))
    res = run(st, 'GraphEngine::find_weighted_path', [ref(ge), Int(a1, False), Int(a2, False), Str(text='weight')])
    ck.note_path_problem(res, f'find_weighted_path edges={es} dirs={dirs}')
    # every simple directed walk s -> t as a list of edge indices (weights >= 0: a cheapest walk can be taken simple)
    def walks(s, t):
        out = []

        def go(cur, seen, edges):
            if cur == t and edges:
                out.append(list(edges))
                return
            for j, (a, b) in enumerate(es):
                for (x, y) in ([(a, b)] if dirs[j] or a == b else [(a, b), (b, a)]):
                    if x == cur and y not in seen:
                        go(y, seen | {y}, edges + [j])
        go(s, {s}, [])
        return out
    fsum = lambda js: functools.reduce(lambda acc, j: z3.fpAdd(z3.RNE(), acc, ws[j]), js, z3.FPVal(0.0, z3.Float64()))
    n_ok = 0
    for r in res:
        wit = lambda m, G=G: {'graph_call': 'find_weighted_path', 'nodes': [mval(m, x) for x in G.nid], 'edges': [[a, b, mval(m, G.eid[j]), dirs[j]] for j, (a, b) in enumerate(es)],
                              'weight_bits': [mval(m, z3.fpToIEEEBV(w_)) for w_ in ws], 'arg1': mval(m, a1), 'arg2': mval(m, a2)}
        if r.status == 'panic':
            ck.require(ex, 'P5_weighted_path_is_a_cheapest_directed_walk', r.pc, None, z3.BoolVal(False), wit, lambda m, w: 'weighted-path-panic')
            continue
        if r.status != 'return':
            continue
        rv = r.retval
        cs = []
        if rv.variant == 'Err':
            e = rv.fields[('Err', 0)]
            for s_ in range(NW):
                for t_ in range(NW):
                    here = z3.And(a1 == G.nid[s_], a2 == G.nid[t_])
                    cs.append(z3.Implies(here, z3.BoolVal(e.variant == 'PathNotFound' and s_ != t_ and not walks(s_, t_))))
            ck.require(ex, 'P5_weighted_path_is_a_cheapest_directed_walk', r.pc, None, z3.And(cs), wit, lambda m, w: 'weighted-path-refused')
            continue
        n_ok += 1
        p = rv.fields[('Ok', 0)]
        nodes = [x.v for x in p.load(F('WeightedPath', 'nodes'), None, r.st).items(r.st)]
        edges = [x.v for x in p.load(F('WeightedPath', 'edges'), None, r.st).items(r.st)]
        total = p.load(F('WeightedPath', 'total_weight'), None, r.st).v
        cs.append(z3.BoolVal(len(nodes) == len(edges) + 1 and len(nodes) >= 1))
        if nodes:
            cs += [nodes[0] == a1, nodes[-1] == a2]
        acc = z3.FPVal(0.0, z3.Float64())
        for i in range(min(len(edges), len(nodes) - 1)):
            alts, wsel = [], z3.FPVal(0.0, z3.Float64())
            for j, (a, b) in enumerate(es):
                fwd = z3.And(nodes[i] == G.nid[a], nodes[i + 1] == G.nid[b])
                back = z3.And(nodes[i] == G.nid[b], nodes[i + 1] == G.nid[a]) if not dirs[j] else z3.BoolVal(False)
                alts.append(z3.And(edges[i] == G.eid[j], z3.Or(fwd, back)))
                wsel = z3.If(edges[i] == G.eid[j], ws[j], wsel)
            cs.append(z3.Or(alts) if alts else z3.BoolVal(False))
            acc = z3.fpAdd(z3.RNE(), acc, wsel)
        cs.append(z3.fpEQ(total, acc))
        for s_ in range(NW):
            for t_ in range(NW):
                here = z3.And(a1 == G.nid[s_], a2 == G.nid[t_])
                if s_ == t_:
                    cs.append(z3.Implies(here, z3.BoolVal(len(edges) == 0)))
                else:
                    cs += [z3.Implies(here, z3.fpLEQ(total, fsum(js))) for js in walks(s_, t_)]
        ck.require(ex, 'P5_weighted_path_is_a_cheapest_directed_walk', r.pc, None, z3.And(cs), wit, lambda m, w: 'weighted-path-not-cheapest')
    return n_ok


import functools
_wcases = [(es, dirs) for es in WGRAPHS for dirs in itertools.product((True, False), repeat=len(es))]
# four nodes (after seed c18h: an improved node that is not re-queued needs S->A, S->B, B->A, A->T, S->T): weights from a set wide
# enough for "optimum < competing route < stale priority"
W4GRAPHS = [[(0, 1), (0, 2), (2, 1), (1, 3), (0, 3)]] + ([[(0, 2), (0, 1), (2, 1), (1, 3), (0, 3)], [(0, 1), (0, 2), (2, 1), (1, 3), (2, 3)]] if T != 'quick' else [])
_wcases += [(es, (True,) * len(es), 4, [1.0, 4.0, 8.0]) for es in W4GRAPHS]
ck.bounds['find_weighted_path'] += f'; plus {len(W4GRAPHS)} directed five-edge shapes on 4 nodes with weights in [1, 4, 8]'
# P5 runs the search over the queue order that O1-O3 decide; when that order is already violated the violation is reported from there and
# the search is not explored under a comparator that is not an order (it need not terminate in reasonable time)
_order_broken = [v for v in ck.violations if v['obligation'].startswith(('O1', 'O2', 'O3'))]
if _order_broken:
    ck.obl['P5_weighted_path_is_a_cheapest_directed_walk']['allow_vacuous'] = True
    ck.notes.append('P5 skipped: the priority-queue order it relies on is violated (O1-O3)')
    _wfound = [1]
else:
    _wfound = ck.parallel([_wcases[i::8] for i in range(8)], lambda chunk: sum(wpath_case(c) for c in chunk), jobs=8 if T != 'quick' else 4)
if not sum(f or 0 for f in _wfound):
    ck.inconclusive.append('P5 vacuous: find_weighted_path never returned a path')
ck.functions += ['GraphEngine::find_weighted_path', 'GraphEngine::reconstruct_weighted_path', 'GraphEngine::extract_edge_weight']
