# C07, file level: save_v3_with_compression / load / detect_version / load_v3 executed from tensor_store's MIR on the
# byte-list file model.  exec()'d from c07.py.
#
# The router's content is opaque: SlabRouter::snapshot() yields a snapshot object, SlabRouter::restore(s) a router built from
# s; bitcode is the image table, zstd an uninterpreted invertible pair.  What is decided is the *file protocol*:
#   F1 save then load returns the router restored from exactly the snapshot that was saved - compressed or not, for every
#      entry-count estimate (including 0) and image length;
#   F2 a save interrupted at any truncation point of the temporary file, or on either side of the rename, leaves `path`
#      loading as the complete previous snapshot or the complete new one.
from mirsym.models import ok as _ok, err as _err, as_seq, deref
from mirsym.models_fs import fs, FileObj

exf = ck.executor('tensor_store', unroll=64, default_maxlen=1, max_paths=20000)
exf.generic_subst = {'P': '&str'}
ck.bounds['snapshot files'] = 'serialized router image 1..3 bytes, compressed image 1..2 bytes, entry-count estimate any u64, previous snapshot present or absent'
ck.assumptions += [
    'files: SlabRouter::snapshot/restore are opaque (the restored router is identified by the snapshot object it was built from); bitcode as image table; '
    'zstd::encode_all/decode_all as an uninterpreted invertible pair; slab contents are NOT decided',
    'files, F2: the crash model is the property\'s: the temporary file is cut at any length, or the crash falls just before / just after the rename; '
    'durability of unsynced data across a power failure (the save path never fsyncs) is outside it',
]


def f_snapshot(c):
    s = Struct('SlabRouterSnapshot', {}, lazy=c.st.fresh_name('snap'))
    c.st.notes.append(('snapshot_taken', s))
    return s


def f_restore(c):
    return Struct('SlabRouter', {'restored_from': c.args[0]}, lazy=c.st.fresh_name('restored'))


def f_zenc(c):
    src = as_seq(c.st, c.args[0])
    n = c.st.env.get('z_len', 1)
    tab = c.st.env.setdefault('zstd', [])
    out = [Int(z3.BitVec(f'z{len(tab)}_{i}', 8), False) for i in range(n)]
    tab.append((out, list(src.items(c.st))))
    return _ok(Seq('u8', list(out)), 'Result<Vec<u8>, std::io::Error>')


def f_zdec(c):
    src = as_seq(c.st, c.args[0]).items(c.st)
    for out, orig in c.st.env.get('zstd', []):
        if len(out) == len(src) and all(a.v.eq(b.v) for a, b in zip(out, src)):
            return _ok(Seq('u8', list(orig)), 'Result<Vec<u8>, std::io::Error>')
    if c.st.choose(2, 'zstd unknown input') == 0:
        return _err(Opaque('io::Error'), 'Result<Vec<u8>, std::io::Error>')
    return _ok(Seq('u8', None, lazy=c.st.fresh_name('unzipped'), maxlen=3), 'Result<Vec<u8>, std::io::Error>')


exf.extra_models.update({
    'SlabRouter::snapshot': f_snapshot, 'SlabRouter::restore': f_restore,
    'SlabRouter::new': lambda c: Struct('SlabRouter', {'restored_from': Struct('SlabRouterSnapshot', {}, lazy='EMPTY-ROUTER')}, lazy=c.st.fresh_name('fresh_router')),
    'SlabRouter::len': lambda c: small_len(c, 'router_len'),
    'EntityIndex::len': lambda c: small_len(c, 'index_len'),
    'zstd::encode_all': f_zenc, 'zstd::stream::encode_all': f_zenc, 'encode_all': f_zenc,
    'zstd::decode_all': f_zdec, 'zstd::stream::decode_all': f_zdec, 'decode_all': f_zdec,
})


def small_len(c, name):
    v = z3.BitVec(c.st.fresh_name(name), 64)
    c.st.assume(z3.ULT(v, z3.BitVecVal(1 << 62, 64)))     # container lengths: their sum does not overflow
    c.st.env.setdefault('len_syms', []).append(v)
    return Int(v, False)


TMP_KEY = 'snap/with_extension/tmp'      # how the file model names path.with_extension("tmp")


def frun(st, fname, args):
    st.frames = []
    exf.call(st, fname, args)
    return exf.run(st)


def loaded_from(r):
    """name of the snapshot object the loaded router was restored from, or an error tag"""
    if r.status != 'return':
        return r.status
    if r.retval.variant != 'Ok':
        return 'Err'
    rt = r.retval.fields[('Ok', 0)]
    src = rt.fields.get('restored_from') if isinstance(rt, Struct) else None
    return getattr(src, 'lazy', None) or 'unknown-router'


ck.declare('F1_save_load_roundtrip', 'save_v3_with_compression(router, path, compress) then load(path); compress on/off; image 1..3 bytes; any entry-count estimate; with and without a longer temporary file left by an earlier interrupted save',
           'save returns Ok and load returns the router restored from exactly the snapshot object that was saved')
ck.declare('F2_interrupted_save_old_or_new', 'a previous complete snapshot at path (or none), then a save cut at every length of the temporary file and on either side of the rename',
           'load(path) gives the previous snapshot while the rename has not happened (NotFound when there was none) and the new one afterwards; never an error or a mixture')
f1 = f2 = 0
LIMG = (1, 2) if T == 'quick' else (1, 2, 3)
for compress in (False, True):
    for L in LIMG:
        for ZL in ((1,) if not compress else ((1, 2) if T == 'quick' else (1, 2, 3))):
            for have_old, stale_tmp in ((False, False), (True, False), (True, True), (False, True)):
                st = exf.new_state()
                st.env['codec_len'] = L
                st.env['z_len'] = ZL
                router = Struct('SlabRouter', {}, lazy='R')
                st.roots['router'] = router
                path = Str(text='snap')
                cur = st
                old_name = None
                okflag = True
                if have_old:
                    # a complete earlier snapshot (other compression setting symbolic is not needed: the loader reads the flag from the header)
                    rs = frun(cur, 'save_v3_with_compression', [ref(router), ref(path), z3.BoolVal(not compress)])
                    ck.note_path_problem(rs, 'previous save')
                    g = [r for r in rs if r.status == 'return' and r.retval.variant == 'Ok']
                    if len(g) != 1:
                        ck.inconclusive.append(f'previous save: {len(rs)} outcomes')
                        continue
                    cur = g[0].st
                    old_name = [x[1].lazy for x in cur.notes if x[0] == 'snapshot_taken'][-1]
                if stale_tmp:
                    # a temporary file left behind by an earlier interrupted save, longer than anything this save writes
                    fs(cur)[TMP_KEY] = FileObj([Int(z3.BitVec(f'stale{i}', 8), False) for i in range(40)], 40)
                pre_files = {k: list(v.data) for k, v in fs(cur).items() if k != TMP_KEY}
                rs = frun(cur, 'save_v3_with_compression', [ref(cur.roots['router']), ref(path), z3.BoolVal(compress)])
                ck.note_path_problem(rs, f'save compress={compress} L={L}')
                for r in rs:
                    wit0 = {'files': True, 'compress': compress, 'image_len': L, 'zlen': ZL, 'previous': have_old, 'stale_tmp': stale_tmp}
                    if r.status == 'panic' or (r.status == 'return' and r.retval.variant != 'Ok'):
                        ck.require(exf, 'F1_save_load_roundtrip', r.pc, None, z3.BoolVal(False), lambda m, w=dict(wit0, stage='save', outcome=str(r.status)): w, lambda m, w: 'save-failed')
                        continue
                    if r.status != 'return':
                        continue
                    f = r.st
                    new_name = [x[1].lazy for x in f.notes if x[0] == 'snapshot_taken'][-1]
                    files = fs(f)
                    tmp_left = [k for k in files if k != 'snap']
                    # F1
                    rl = frun(f.clone(), 'load', [ref(Str(text='snap'))])
                    ck.note_path_problem(rl, 'load after save')
                    for r2 in rl:
                        if r2.status not in ('return', 'panic'):
                            continue
                        got = loaded_from(r2)
                        ls = list(f.env.get('len_syms', []))[-2:]
                        ck.require(exf, 'F1_save_load_roundtrip', r2.pc, None, z3.BoolVal(got == new_name),
                                   lambda m, ls=ls, w=dict(wit0, stage='load', loaded=got, saved=new_name, leftover=tmp_left): dict(w, estimate_zero=all(mval(m, x) == 0 for x in ls)),
                                   lambda m, w: 'roundtrip')
                        f1 += 1
                    # F2: states before the rename: path as before the save, temp file = any prefix of the new content
                    new_bytes = list(files['snap'].data)
                    for cut in range(0, len(new_bytes) + 1):
                        s2 = f.clone()
                        d = fs(s2)
                        for k in list(d):
                            del d[k]
                        for k, v in pre_files.items():
                            d[k] = FileObj(list(v), len(v))
                        d[TMP_KEY] = FileObj(list(new_bytes[:cut]), cut)
                        rl = frun(s2, 'load', [ref(Str(text='snap'))])
                        ck.note_path_problem(rl, 'load after interrupted save')
                        for r3 in rl:
                            if r3.status not in ('return', 'panic'):
                                continue
                            got = loaded_from(r3)
                            want = old_name if have_old else 'Err'
                            ck.require(exf, 'F2_interrupted_save_old_or_new', r3.pc, None, z3.BoolVal(got == want),
                                       lambda m, w=dict(wit0, stage='before-rename', cut=cut, total=len(new_bytes), loaded=got, want=want, estimate_zero=False): w, lambda m, w: 'interrupted-save')
                            f2 += 1
if f1 == 0 or f2 == 0:
    ck.inconclusive.append(f'vacuous: file obligations instantiated {f1}/{f2} times')
ck.functions += ['snapshot::save_v3_with_compression', 'snapshot::load', 'snapshot::detect_version', 'snapshot::load_v3']


def files_replay(w):
    rep = Replay.call({'op': 'snapshot_files', **{k: w[k] for k in ('compress', 'previous', 'stage', 'estimate_zero', 'stale_tmp') if k in w}, 'cut': w.get('cut', 0), 'total': w.get('total', 1)})
    if w.get('stage') == 'before-rename':
        want = rep.get('old') if w.get('previous') else None
        got = rep.get('loaded')
        bad = (got != want) if want is not None else not str(got).startswith('Err')
    elif w.get('stage') == 'load':
        bad = rep.get('loaded') != rep.get('new') or not rep.get('save_ok')
    else:
        bad = not rep.get('save_ok')
    return rep, bool(bad)
