# C01, leader/candidate side: L1 (commit rule), L3 (responses), V5 (election quorum), V4 (pre-vote is read-only),
# L2 (leader append-only), E1 (start_election).  exec()'d from c01.py: shares its namespace.
T_PEERS = 'parking_lot::lock_api::RwLock<parking_lot::RawRwLock, std::vec::Vec<std::string::String>>'
T_VOTES = T_PEERS
MAXPEERS = 2 if T == 'quick' else 4
PEER_COUNTS = (2,) if T == 'quick' else (2, 4)


def set_peers(st, N, m):
    peers = [Str(z3.BitVec(f'peer{i}', 64)) for i in range(m)]
    for i in range(m):
        st.assume(peers[i].id != N.id.id)
        for j in range(i + 1, m):
            st.assume(peers[i].id != peers[j].id)
    lock = N.node.load(F('RaftNode', 'peers'), T_PEERS, st)
    lock.fields['data'].val = Seq('std::string::String', list(peers))
    cfg = N.node.load(F('RaftNode', 'config'), 'raft::RaftConfig', st)
    cfg.fields[F('RaftConfig', 'quorum_size')] = none('std::option::Option<usize>')
    return peers


def make_leader(st, N, peers):
    L = N.leadership(st)
    L.fields[F('LeadershipState', 'role')] = Enum('raft::RaftState', ROLE['Leader'], {}, variant='Leader')
    mi = [Int(z3.BitVec(f'match{i}', 64), False) for i in range(len(peers))]
    ni = [Int(z3.BitVec(f'next{i}', 64), False) for i in range(len(peers))]
    n_log = N.loglen0
    for x in ni:
        st.assume(z3.UGE(x.v, U64(1)))
        st.assume(z3.ULE(x.v, U64(n_log + 1)))
    for x in mi:
        st.assume(z3.ULE(x.v, U64(n_log)))
    ls = Struct('raft::LeaderVolatileState', {
        F('LeaderVolatileState', 'next_index'): Map('std::string::String', 'u64', list(peers), list(ni)),
        F('LeaderVolatileState', 'match_index'): Map('std::string::String', 'u64', list(peers), list(mi)),
        F('LeaderVolatileState', 'backoff_failures'): Map('std::string::String', 'u32', None, None, lazy='N.backoff', maxlen=1),
    })
    L.fields[F('LeadershipState', 'leader_volatile')] = some(ls, 'std::option::Option<raft::LeaderVolatileState>')
    return mi, ni


def leader_maps(N, st):
    L = N.leadership(st)
    lv = L.load(F('LeadershipState', 'leader_volatile'), None, st)
    if isinstance(lv.disc, int) and lv.disc == 0:
        return None, None
    ls = lv.fields[('Some', 0)]
    return ls.fields[F('LeaderVolatileState', 'match_index')], ls.fields[F('LeaderVolatileState', 'next_index')]


def map_lookup(m, key_id, st, default=None):
    """z3 term: value stored for key (ite chain), and presence"""
    val = default if default is not None else U64(0)
    present = z3.BoolVal(False)
    for i, k in enumerate(m.keys):
        v = m.load(i, None, st)
        val = z3.If(k.id == key_id, v.v, val)
        present = z3.Or(present, k.id == key_id)
    return val, present


def majority(m_peers):
    return (m_peers + 1) // 2 + 1


def commit_rule(N, f, c1, mi_terms_after, m_peers, extra_ok=None):
    """commit advanced to c1 => log[c1].term == current_term and stored on a quorum (self counted once)"""
    log1 = N.log(f)
    q = majority(m_peers)
    cnt = z3.BitVecVal(1, 8)
    for t in mi_terms_after:
        cnt = cnt + z3.If(z3.UGE(t, c1), z3.BitVecVal(1, 8), z3.BitVecVal(0, 8))
    in_log = z3.Or([z3.And(c1 == U64(i + 1), log1[i][0] == N.term(f)) for i in range(len(log1))]) if log1 else z3.BoolVal(False)
    return z3.And(z3.UGE(cnt, z3.BitVecVal(q, 8)), in_log)


# ================================================================ L1: try_advance_commit_index
ck.declare('L1_commit_rule', f'leader log 0..{MAXLOG}, peers {PEER_COUNTS}, arbitrary match_index values',
           'commit_index advances to N only if N is stored on a majority per match_index (self once) and log[N].term = current_term; never decreases')
advanced = 0
for m_peers in PEER_COUNTS:
    for n in range(MAXLOG + 1):
        st = ex.new_state()
        N = Node(st, n)
        peers = set_peers(st, N, m_peers)
        mi, ni = make_leader(st, N, peers)
        res = run(st, 'RaftNode::try_advance_commit_index', [N.ptr])
        ck.note_path_problem(res, f'try_advance_commit_index log={n} peers={m_peers}')
        for r in res:
            wit = lambda m, r=r, N=N, mi=mi: {'handler': 'try_advance_commit_index', 'pre': pre_dump(m, N, r.st), 'match_index': [mval(m, x.v) for x in mi]}
            if r.status == 'panic':
                ck.require(ex, 'L1_commit_rule', r.pc, None, z3.BoolVal(False), wit, lambda m, w: 'advance-panic')
                continue
            if r.status != 'return':
                continue
            f = r.st
            c1 = N.commit(f)
            ck.require(ex, 'L1_commit_rule', r.pc, None,
                       z3.And(z3.UGE(c1, N.commit0.v), z3.Implies(c1 != N.commit0.v, commit_rule(N, f, c1, [x.v for x in mi], m_peers))),
                       wit, lambda m, w: 'commit-rule')
            if ex.solver.check(r.pc, c1 != N.commit0.v) == z3.sat:
                advanced += 1
                if advanced == 1:
                    rr, mm = ex.solver.model(r.pc, c1 != N.commit0.v)
                    ck.sample({'obligation': 'L1 cover: commit advances', **wit(mm), 'commit_after': mval(mm, c1)})
if advanced == 0:
    ck.inconclusive.append('vacuous: commit index never advances in try_advance_commit_index')
ck.notes.append(f'try_advance_commit_index: advance feasible on {advanced} paths')

# ================================================================ L3: handle_append_entries_response
ck.declare('L3_stale_response_ignored', f'leader log 0..{MAXLOG}, 2 peers', 'a response whose term is below the current term changes neither match_index/next_index nor commit_index')
ck.declare('L3_step_down', 'same', 'higher-term response => follower in that term (when persisted), leader state dropped, commit unchanged')
ck.declare('L3_bookkeeping', 'same', 'current-term success => match_index[from] = response.match_index and next_index[from] = match_index+1; failure => match_index unchanged and 1 <= next_index[from] <= old')
ck.declare('L1_commit_rule_via_response', 'same', 'as L1, for the commit advance performed inside the response handler')
for n in range(MAXLOG + 1):
    m_peers = 2
    st = ex.new_state()
    N = Node(st, n)
    peers = set_peers(st, N, m_peers)
    mi, ni = make_leader(st, N, peers)
    aer = st.fresh('AppendEntriesResponse', 'aer')
    a_term = aer.load(F('AppendEntriesResponse', 'term'), 'u64', st).v
    a_succ = aer.load(F('AppendEntriesResponse', 'success'), 'bool', st)
    a_mi = aer.load(F('AppendEntriesResponse', 'match_index'), 'u64', st).v
    st.assume(z3.ULT(a_mi, U64(1 << 62)))
    frm = st.fresh('std::string::String', 'from')
    res = run(st, 'RaftNode::handle_append_entries_response', [N.ptr, ref(frm), ref(aer)])
    ck.note_path_problem(res, f'handle_append_entries_response log={n}')
    for r in res:
        wit = lambda m, r=r, N=N, mi=mi, ni=ni, peers=peers: {
            'handler': 'append_entries_response', 'pre': pre_dump(m, N, r.st), 'peers': [mval(m, p.id) for p in peers],
            'match_index': [mval(m, x.v) for x in mi], 'next_index': [mval(m, x.v) for x in ni],
            'aer': {'from': mval(m, frm.id), 'term': mval(m, a_term), 'success': mval(m, a_succ), 'match_index': mval(m, a_mi)}}
        if r.status == 'panic':
            ck.require(ex, 'L3_bookkeeping', r.pc, None, z3.BoolVal(False), wit, lambda m, w: 'aer-panic')
            continue
        if r.status != 'return':
            continue
        f = r.st
        c1 = N.commit(f)
        mmap, nmap = leader_maps(N, f)
        persist_failed = any(x[0] == 'persist_failed' for x in f.notes)
        if mmap is not None:
            after = [map_lookup(mmap, p.id, f)[0] for p in peers]
            nafter = [map_lookup(nmap, p.id, f)[0] for p in peers]
            same_maps = z3.And([a == b.v for a, b in zip(after, mi)] + [a == b.v for a, b in zip(nafter, ni)] +
                               [z3.BoolVal(len(mmap.keys) == len(peers) and len(nmap.keys) == len(peers))])
            from_is_peer = z3.Or([frm.id == p.id for p in peers])
            fresh_leader = z3.And([x.v == 0 for x in mi] + [x.v == U64(n + 1) for x in ni] + [N.commit0.v == 0, N.vote0_disc == 0] +
                                  [t == N.term0.v for t in N.log0[-1:]])
            ck.require(ex, 'L3_stale_response_ignored', r.pc, z3.And(from_is_peer, z3.ULT(a_term, N.term0.v)), z3.And(same_maps, c1 == N.commit0.v), wit,
                       lambda m, w: 'stale-term-response', prefer=fresh_leader)
            got_m, _ = map_lookup(mmap, frm.id, f)
            got_n, _ = map_lookup(nmap, frm.id, f)
            old_n, _ = map_lookup(Map(None, None, list(peers), list(ni)), frm.id, f)
            others_same = z3.And([z3.Implies(p.id != frm.id, z3.And(a == b.v, c == d.v)) for p, a, b, c, d in zip(peers, after, mi, nafter, ni)])
            cur = z3.And(a_term == N.term0.v, from_is_peer)
            ck.require(ex, 'L3_bookkeeping', r.pc, z3.And(cur, a_succ), z3.And(got_m == a_mi, got_n == a_mi + 1, others_same), wit, lambda m, w: 'bookkeeping')
            ck.require(ex, 'L3_bookkeeping', r.pc, z3.And(cur, z3.Not(a_succ)),
                       z3.And(z3.And([a == b.v for a, b in zip(after, mi)]), z3.UGE(got_n, U64(1)), z3.ULE(got_n, old_n), others_same), wit, lambda m, w: 'bookkeeping-fail')
            ck.require(ex, 'L1_commit_rule_via_response', r.pc, from_is_peer,
                       z3.And(z3.UGE(c1, N.commit0.v), z3.Implies(c1 != N.commit0.v, commit_rule(N, f, c1, after, m_peers))), wit, lambda m, w: 'commit-rule')
        else:
            # leader state dropped: must be the step-down path
            ck.require(ex, 'L3_step_down', r.pc, None, z3.And(z3.UGT(a_term, N.term0.v), N.term(f) == a_term, N.role(f) == ROLE['Follower'], c1 == N.commit0.v), wit, lambda m, w: 'step-down')
        if not persist_failed:
            ck.require(ex, 'L3_step_down', r.pc, z3.UGT(a_term, N.term0.v),
                       z3.And(N.term(f) == a_term, N.role(f) == ROLE['Follower'], z3.BoolVal(mmap is None)), wit, lambda m, w: 'no-step-down')

# ================================================================ V5: votes are counted once, for the current term, and a majority is needed
ck.declare('V5_election_quorum', f'candidate, 2 and 4 peers, 0..2 votes already counted',
           'role becomes Leader only with >= majority distinct granted current-term votes; other responses do not add votes; higher term => follower')
wins = 0
for m_peers in (2, 4):
    for nv in range(0, 3):
        st = ex.new_state()
        N = Node(st, 1)
        peers = set_peers(st, N, m_peers)
        votes = [Str(z3.BitVec(f'voter{i}', 64)) for i in range(nv)]
        for i in range(nv):
            for j in range(i + 1, nv):
                st.assume(votes[i].id != votes[j].id)
        N.node.load(F('RaftNode', 'votes_received'), T_VOTES, st).fields['data'].val = Seq('std::string::String', list(votes))
        rvr = st.fresh('RequestVoteResponse', 'rvr')
        r_term = rvr.load(F('RequestVoteResponse', 'term'), 'u64', st).v
        r_gr = rvr.load(F('RequestVoteResponse', 'vote_granted'), 'bool', st)
        frm = st.fresh('std::string::String', 'from')
        res = run(st, 'RaftNode::handle_request_vote_response', [N.ptr, ref(frm), ref(rvr)])
        ck.note_path_problem(res, f'handle_request_vote_response peers={m_peers} votes={nv}')
        for r in res:
            wit = lambda m, r=r, N=N, votes=votes: {'handler': 'request_vote_response', 'pre': pre_dump(m, N, r.st), 'votes': [mval(m, v.id) for v in votes],
                                                    'rvr': {'from': mval(m, frm.id), 'term': mval(m, r_term), 'granted': mval(m, r_gr)}, 'peers': m_peers}
            if r.status == 'panic':
                ck.require(ex, 'V5_election_quorum', r.pc, None, z3.BoolVal(False), wit, lambda m, w: 'rvr-panic')
                continue
            if r.status != 'return':
                continue
            f = r.st
            role1 = N.role(f)
            v1 = f.roots['node'].load(F('RaftNode', 'votes_received'), T_VOTES, f).fields['data'].load(0, None, f).items(f)
            was_cand = disc(N.role0) == ROLE['Candidate']
            counted = z3.And(was_cand, r_gr, r_term == N.term0.v)
            new_vote = z3.And([frm.id != v.id for v in votes]) if votes else z3.BoolVal(True)
            n_after = len(v1)
            became_leader = z3.And(role1 == ROLE['Leader'], disc(N.role0) != ROLE['Leader'])
            ck.require(ex, 'V5_election_quorum', r.pc, became_leader,
                       z3.And(counted, z3.BoolVal(n_after >= majority(m_peers)), N.term(f) == N.term0.v), wit, lambda m, w: 'minority-leader')
            ck.require(ex, 'V5_election_quorum', r.pc, z3.Not(z3.And(counted, new_vote)), z3.BoolVal(n_after == nv), wit, lambda m, w: 'vote-miscounted')
            ck.require(ex, 'V5_election_quorum', r.pc, z3.And(counted, new_vote), z3.BoolVal(n_after == nv + 1), wit, lambda m, w: 'vote-miscounted')
            if ex.solver.check(r.pc, became_leader) == z3.sat:
                wins += 1
if wins == 0:
    ck.inconclusive.append('vacuous: no path wins an election')
ck.notes.append(f'handle_request_vote_response: election won on {wins} paths')
ck.declare('V5_quorum_size', 'cluster sizes 1..9', 'quorum_size(n) * 2 > n (two quorums intersect) and quorum_size(n) <= n')
for n_total in range(1, 10):
    st = ex.new_state()
    res = run(st, 'quorum_size', [Int(U64(n_total), False)])
    ck.note_path_problem(res, 'quorum_size')
    for r in res:
        if r.status == 'return':
            q = r.retval.v
            ck.require(ex, 'V5_quorum_size', r.pc, None, z3.And(z3.UGT(q * 2, U64(n_total)), z3.ULE(q, U64(n_total))), lambda m: {'n': n_total}, lambda m, w: 'quorum-size')

# ================================================================ V4: pre-vote is read-only;  E1: start_election;  L2: propose appends
ck.declare('V4_prevote_readonly', f'log 0..{MAXLOG}', 'handle_pre_vote changes neither term, vote, log, role nor commit index')
for n in range(MAXLOG + 1):
    st = ex.new_state()
    N = Node(st, n)
    pv = st.fresh('PreVote', 'pv')
    frm = st.fresh('std::string::String', 'from')
    res = run(st, 'RaftNode::handle_pre_vote', [N.ptr, ref(frm), ref(pv)])
    ck.note_path_problem(res, f'handle_pre_vote log={n}')
    for r in res:
        wit = lambda m, r=r, N=N: {'handler': 'pre_vote', 'pre': pre_dump(m, N, r.st)}
        if r.status != 'return':
            if r.status == 'panic':
                ck.require(ex, 'V4_prevote_readonly', r.pc, None, z3.BoolVal(False), wit, lambda m, w: 'prevote-panic')
            continue
        f = r.st
        log1 = N.log(f)
        v1 = N.vote(f)
        ck.require(ex, 'V4_prevote_readonly', r.pc, None,
                   z3.And([N.term(f) == N.term0.v, disc(v1) == N.vote0_disc, z3.Implies(N.vote0_disc == 1, opt_str_eq(v1, N.vote0_some, f)),
                           z3.BoolVal(len(log1) == n), N.role(f) == disc(N.role0), N.commit(f) == N.commit0.v] +
                          [log1[i][0] == N.log0[i] for i in range(min(n, len(log1)))]), wit, lambda m, w: 'prevote-mutates')

ck.declare('E1_start_election', f'log 0..{MAXLOG}, term < 2^63', 'start_election: term+1, votes for itself, persisted first, candidate with exactly its own vote; WAL failure => no change')
for n in range(MAXLOG + 1):
    st = ex.new_state()
    N = Node(st, n)
    st.assume(z3.ULT(N.term0.v, U64(1 << 63)))
    res = run(st, 'RaftNode::start_election', [N.ptr])
    ck.note_path_problem(res, f'start_election log={n}')
    for r in res:
        wit = lambda m, r=r, N=N: {'handler': 'start_election', 'pre': pre_dump(m, N, r.st)}
        if r.status != 'return':
            if r.status == 'panic':
                ck.require(ex, 'E1_start_election', r.pc, None, z3.BoolVal(False), wit, lambda m, w: 'election-panic')
            continue
        f = r.st
        failed = any(x[0] == 'persist_failed' for x in f.notes)
        if failed:
            ck.require(ex, 'E1_start_election', r.pc, None, z3.And(N.term(f) == N.term0.v, N.role(f) == disc(N.role0)), wit, lambda m, w: 'election-unpersisted')
        else:
            pn = [x for x in f.notes if x[0] == 'persist_term_vote']
            v1 = N.vote(f)
            votes1 = f.roots['node'].load(F('RaftNode', 'votes_received'), T_VOTES, f).fields['data'].load(0, None, f).items(f)
            ck.require(ex, 'E1_start_election', r.pc, None,
                       z3.And(N.term(f) == N.term0.v + 1, opt_str_eq(v1, N.id, f), N.role(f) == ROLE['Candidate'],
                              z3.BoolVal(len(votes1) == 1 and len(pn) == 1), votes1[0].id == N.id.id if votes1 else z3.BoolVal(False),
                              pn[0][1].v == N.term0.v + 1 if pn else z3.BoolVal(False)), wit, lambda m, w: 'election-state')

# ================================================================ E2: a new leadership starts from scratch
ck.declare('E2_leader_state_reinitialised', f'become_leader on a node with log 0..{MAXLOG}, peers {PEER_COUNTS}, with or without a leader state left over from an earlier leadership (arbitrary match/next values)',
           'afterwards the node is Leader, every peer has match_index 0 and a next_index in 1..last log index + 1, and nobody else is tracked: acknowledgements of an earlier leadership are never counted')
for n in range(MAXLOG + 1):
    for m_peers in PEER_COUNTS:
        for leftover in (False, True):
            st = ex.new_state()
            N = Node(st, n)
            peers = set_peers(st, N, m_peers)
            if leftover:
                make_leader(st, N, peers)
                L0 = N.leadership(st)
                L0.fields[F('LeadershipState', 'role')] = Enum('raft::RaftState', z3.BitVec('role_before', 64), {})
                st.assume(z3.Or([z3.BitVec('role_before', 64) == v_ for v_ in ROLE.values()]))
            else:
                N.leadership(st).fields[F('LeadershipState', 'leader_volatile')] = none('std::option::Option<raft::LeaderVolatileState>')
            res = run(st, 'RaftNode::become_leader', [N.ptr])
            ck.note_path_problem(res, f'become_leader log={n} peers={m_peers} leftover={leftover}')
            for r in res:
                wit = lambda m, r=r, N=N, leftover=leftover, m_peers=m_peers: {'handler': 'become_leader', 'pre': pre_dump(m, N, r.st), 'leftover': leftover, 'peers': m_peers,
                                                                              'old_match': [mval(m, z3.BitVec(f'match{i}', 64)) for i in range(m_peers)] if leftover else []}
                if r.status != 'return':
                    if r.status == 'panic':
                        ck.require(ex, 'E2_leader_state_reinitialised', r.pc, None, z3.BoolVal(False), wit, lambda m, w: 'become-leader-panic')
                    continue
                f = r.st
                mi1, ni1 = leader_maps(N, f)
                if mi1 is None:
                    ck.require(ex, 'E2_leader_state_reinitialised', r.pc, None, z3.BoolVal(False), wit, lambda m, w: 'no-leader-state')
                    continue
                cs = [N.role(f) == ROLE['Leader'], z3.BoolVal(len(mi1.keys) == m_peers and len(ni1.keys) == m_peers)]
                for p_ in peers:
                    mv, mp = map_lookup(mi1, p_.id, f)
                    nv, np_ = map_lookup(ni1, p_.id, f)
                    cs += [mp, np_, mv == U64(0), z3.UGE(nv, U64(1)), z3.ULE(nv, U64(n + 1))]      # any next_index in 1..len+1 is safe; match_index must start at 0
                ck.require(ex, 'E2_leader_state_reinitialised', r.pc, None, z3.And(cs), wit, lambda m, w: 'stale-leader-state')

# ================================================================ T0: no handler clears or switches the vote inside a term (pre-vote response, timeout-now)
ck.declare('T0_vote_stable_within_term', f'log 0..1, 2 peers, 0..1 pre-votes counted; handle_pre_vote_response and handle_timeout_now with arbitrary messages',
           'the term never decreases, and while the term is unchanged the recorded vote is unchanged (or was empty before): the vote of a term is cast once')
T_BOOL = 'parking_lot::lock_api::RwLock<parking_lot::RawRwLock, bool>'
for fname, mty, mname in (('RaftNode::handle_pre_vote_response', 'PreVoteResponse', 'pvr'), ('RaftNode::handle_timeout_now', 'TimeoutNow', 'tn')):
    for n in range(0, 2):
        for npv in range(0, 2):
            st = ex.new_state()
            N = Node(st, n)
            peers = set_peers(st, N, 2)
            pv = [Str(z3.BitVec(f'prevoter{i}', 64)) for i in range(npv)]
            N.node.load(F('RaftNode', 'pre_votes_received'), T_VOTES, st).fields['data'].val = Seq('std::string::String', list(pv))
            st.assume(z3.ULT(N.term0.v, U64(1 << 62)))
            msg = st.fresh(mty, mname)
            frm = st.fresh('std::string::String', 'from')
            res = run(st, fname, [N.ptr, ref(frm), ref(msg)])
            ck.note_path_problem(res, f'{fname} log={n} prevotes={npv}')
            for r in res:
                wit = lambda m, r=r, N=N, fname=fname: {'handler': fname.split('::')[-1], 'pre': pre_dump(m, N, r.st),
                                                        'msg': {k: mval(m, v.v if isinstance(v, Int) else v) for k, v in r.st.symbols.items() if k.startswith(mname + '.') and (isinstance(v, Int) or z3.is_bool(v))}}
                if r.status == 'panic':
                    ck.require(ex, 'T0_vote_stable_within_term', r.pc, None, z3.BoolVal(False), wit, lambda m, w: 'handler-panic')
                    continue
                if r.status != 'return':
                    continue
                f = r.st
                t1 = N.term(f)
                v1 = N.vote(f)
                same_vote = z3.And(disc(v1) == N.vote0_disc, z3.Implies(N.vote0_disc == 1, opt_str_eq(v1, N.vote0_some, f)))
                ck.require(ex, 'T0_vote_stable_within_term', r.pc, None,
                           z3.And(z3.UGE(t1, N.term0.v), z3.Implies(t1 == N.term0.v, z3.Or(same_vote, N.vote0_disc == 0))), wit, lambda m, w: 'vote-cleared-in-term',
                           prefer=z3.And(N.commit0.v == 0, N.vote0_disc == 1))
