"""C04 — relational filtering: index key encodings agree with the row-level predicate.
Value::{eq (derived), partial_cmp_value, hash_key}, OrderedKey::{from_value, cmp}, OrderedFloat::cmp executed from
relational_engine's MIR over every i64 / f64 bit pattern / bool."""
import sys
import os
sys.path.insert(0, os.path.dirname(os.path.dirname(os.path.abspath(__file__))))
from props.common import *

ck = Check('C04')
T = ck.tier
ex = ck.executor('relational_engine', unroll=16, max_paths=50000)
P = ex.prog
ck.bounds = {'values': 'Null, Int (every i64), Float (every f64 bit pattern incl. NaN payloads, +-0, +-inf), Bool; both operands symbolic, same or different kinds',
             'strings/bytes/json': 'not covered (hash via DefaultHasher / unbounded data)'}
ck.assumptions = [
    'wide::f64x4 is modelled by its lane-wise contract (new/splat/cmp_lt/cmp_gt/cmp_eq/move_mask); wide::i64x4 is executed for real by Kani',
    'Kani harness stubs: none needed for these kernels; unwinding assertions on; cover property must be satisfied',
    'format!("i:{v}") etc. are modelled as structured strings: equal iff same template and equal arguments (Display of integers is injective)',
    'NOT decided: plan equivalence over engine state (index maintenance through the insert paths - update/delete are C09 U3, index creation is I1 -, limit/offset, cursors, slab vectorised filter, query router) - TensorStore/slab state is outside the executor',
    'a superset returned by an index is harmless only if the caller re-checks fetched rows (select_with_options does); only completeness of index lookups is required here',
]
VK = {n: P.variant_index('Value', n) for n in ('Null', 'Int', 'Float', 'String', 'Bool')}


def mkval(st, name, kind):
    if kind == 'Int':
        x = Int(z3.BitVec(name + '.i', 64), True)
        return Enum('Value', VK['Int'], {('Int', 0): x}, variant='Int'), x.v
    if kind == 'Float':
        b = z3.BitVec(name + '.fbits', 64)
        x = z3.fpBVToFP(b, z3.Float64())
        st.env.setdefault('fbits', {})[('fbits', x.get_id())] = b
        return Enum('Value', VK['Float'], {('Float', 0): Flt(x)}, variant='Float'), b
    if kind == 'Bool':
        x = z3.Bool(name + '.b')
        return Enum('Value', VK['Bool'], {('Bool', 0): x}, variant='Bool'), x
    return Enum('Value', VK['Null'], {}, variant='Null'), z3.BoolVal(True)


def run(st, fname, args):
    st.frames = []
    ex.call(st, fname, args)
    return ex.run(st)


def fold_bool(st0, fname, args_names):
    st = st0.clone()
    res = run(st, fname, [ref(st.roots[n]) for n in args_names])
    ck.note_path_problem(res, fname)
    base = len(st0.pc)
    t = z3.BoolVal(False)
    for r in res:
        if r.status == 'panic':
            ck.inconclusive.append(f'{fname} can panic: {r.msg}')
        if r.status == 'return':
            t = z3.Or(t, z3.And(r.pc[base:] + [r.retval]))
    return t


def fold_ordering(st0, fname, args_names, optional=False, conv=None):
    """-> z3 term: -1/0/1, or 9 for None (optional results)"""
    st = st0.clone()
    args = [ref(st.roots[n]) for n in args_names]
    res = run(st, fname, args)
    ck.note_path_problem(res, fname)
    base = len(st0.pc)
    t = z3.BitVecVal(7, 64)
    for r in res:
        if r.status != 'return':
            if r.status == 'panic':
                ck.inconclusive.append(f'{fname} can panic: {r.msg}')
            continue
        rv = r.retval
        if optional:
            if isinstance(rv.disc, int) and rv.disc == 0:
                t = z3.If(z3.And(r.pc[base:] + [z3.BoolVal(True)]), z3.BitVecVal(9, 64), t)
                continue
            rv = rv.fields[('Some', 0)]
        d = rv.disc if not isinstance(rv.disc, int) else z3.BitVecVal(rv.disc, 64)
        t = z3.If(z3.And(r.pc[base:] + [z3.BoolVal(True)]), d, t)
    return t


def hash_key_of(st0, name):
    st = st0.clone()
    res = run(st, 'Value::hash_key', [ref(st.roots[name])])
    ck.note_path_problem(res, 'hash_key')
    good = [r for r in res if r.status == 'return']
    return good


ck.declare('K1_hash_index_complete', 'pairs of Int/Float/Bool/Null values', 'v == t (the Eq predicate) => hash_key(v) == hash_key(t): an equality lookup through the hash index finds every matching row')
ck.declare('K2_ordered_index_complete', 'pairs of Int/Float/Bool values', 'partial_cmp_value(v,t) = Less/Equal/Greater => the B-tree key of v is ordered the same way against the key of t (range lookups miss no matching row)')
ck.declare('K3_ordered_key_total', 'triples of Float keys', 'OrderedFloat::cmp is a total preorder (antisymmetric on the sign, transitive): BTreeMap invariants hold')
KINDS = ('Int', 'Float', 'Bool', 'Null')
from mirsym.models_std import str_equal
for ka in KINDS:
    for kb in KINDS:
        st0 = ex.new_state()
        va, xa = mkval(st0, 'v', ka)
        vb, xb = mkval(st0, 't', kb)
        st0.roots['v'], st0.roots['t'] = va, vb
        wit = lambda m, ka=ka, kb=kb, xa=xa, xb=xb: {'v': {'kind': ka, 'raw': hex(mval(m, xa)) if ka in ('Int', 'Float') else mval(m, xa)},
                                                     't': {'kind': kb, 'raw': hex(mval(m, xb)) if kb in ('Int', 'Float') else mval(m, xb)}}
        eq = fold_bool(st0, '<Value as PartialEq>::eq', ['v', 't'])
        # hash keys: fold over path pairs
        ha, hb = hash_key_of(st0, 'v'), hash_key_of(st0, 't')
        for ra in ha:
            for rb in hb:
                pc = ra.pc + rb.pc[len(st0.pc):]
                try:
                    same = str_equal(ra.st, ra.retval, rb.retval)
                except Unsupported as e:
                    ck.inconclusive.append(f'hash_key comparison {ka}/{kb}: {e}')
                    continue
                ck.require(ex, 'K1_hash_index_complete', pc, eq, same, wit,
                           lambda m, w: 'hash-signed-zero' if (w['v']['kind'] == 'Float' and w['t']['kind'] == 'Float' and {w['v']['raw'], w['t']['raw']} == {'0x0', '0x8000000000000000'}) else 'hash-key')
        if ka == 'Null' or kb == 'Null':
            continue
        pcv = fold_ordering(st0, 'Value::partial_cmp_value', ['v', 't'], optional=True)
        # ordered keys
        st = st0.clone()
        ks = {}
        okk = True
        for nm in ('v', 't'):
            res = run(st, 'OrderedKey::from_value', [ref(st.roots[nm])])
            ck.note_path_problem(res, 'OrderedKey::from_value')
            g = [r for r in res if r.status == 'return']
            if len(g) != 1:
                okk = False
                break
            st = g[0].st
            st.roots['k' + nm] = g[0].retval
        if not okk:
            ck.inconclusive.append(f'OrderedKey::from_value forks for {ka}/{kb}')
            continue
        kc = fold_ordering(st, '<OrderedKey as Ord>::cmp', ['kv', 'kt'])
        for o, name in ((-1, 'Less'), (0, 'Equal'), (1, 'Greater')):
            ck.require(ex, 'K2_ordered_index_complete', st.pc, pcv == o, kc == o, wit, lambda m, w, name=name: 'ordered-key-' + name)
ck.obl['K2_ordered_index_complete']['allow_vacuous'] = False

# K3: OrderedFloat::cmp total preorder
st0 = ex.new_state()
fb = {}
for n in 'abc':
    b = z3.BitVec(n + '.bits', 64)
    x = z3.fpBVToFP(b, z3.Float64())
    st0.env.setdefault('fbits', {})[('fbits', x.get_id())] = b
    st0.roots[n] = Struct('OrderedFloat', {0: Flt(x)})
    fb[n] = b
cab = fold_ordering(st0, '<OrderedFloat as Ord>::cmp', ['a', 'b'])
cba = fold_ordering(st0, '<OrderedFloat as Ord>::cmp', ['b', 'a'])
cbc = fold_ordering(st0, '<OrderedFloat as Ord>::cmp', ['b', 'c'])
cac = fold_ordering(st0, '<OrderedFloat as Ord>::cmp', ['a', 'c'])
w3 = lambda m: {n: hex(mval(m, fb[n])) for n in 'abc'}
ck.require(ex, 'K3_ordered_key_total', st0.pc, None, z3.And(z3.Or(cab == -1, cab == 0, cab == 1), cab == -cba), w3, lambda m, w: 'antisymmetric')
ck.require(ex, 'K3_ordered_key_total', st0.pc, z3.And(cab != 1, cbc != 1), cac != 1, w3, lambda m, w: 'transitive')
ck.require(ex, 'K3_ordered_key_total', st0.pc, z3.And(cab == 0, cbc == 0), cac == 0, w3, lambda m, w: 'transitive-eq')

# ------------------------------------------------------------------ vectorised filters
# f64 kernels: Kani cannot execute the SSE2 compare intrinsic behind wide::f64x4, so they run in the MIR executor with
# the `wide` crate modelled by its lane-wise contract (splat/new/cmp_*/move_mask); i64 kernels run bit-exactly under Kani.
def _lanes(c, i=0):
    v = c.args[i]
    v = v.load(c.st) if isinstance(v, Ptr) else v
    return v.fields['lanes']


def _f64x4_new(c):
    arr = c.args[0]
    return Struct('f64x4', {'lanes': list(arr.items(c.st))})


def _f64x4_splat(c):
    return Struct('f64x4', {'lanes': [c.args[0]] * 4})


def _f64x4_cmp(op):
    def f(c):
        a, b = _lanes(c, 0), _lanes(c, 1)
        fn = {'lt': z3.fpLT, 'gt': z3.fpGT, 'eq': z3.fpEQ}[op]
        return Struct('f64x4mask', {'lanes': [fn(x.v, y.v) for x, y in zip(a, b)]})
    return f


def _move_mask(c):
    ls = _lanes(c, 0)
    v = z3.BitVecVal(0, 32)
    for j, b in enumerate(ls):
        v = v | z3.If(b, z3.BitVecVal(1 << j, 32), z3.BitVecVal(0, 32))
    return Int(z3.simplify(v), True)


ex.extra_models.update({'f64x4::new': _f64x4_new, 'f64x4::splat': _f64x4_splat, 'wide::splat': _f64x4_splat, '<f64x4 as From<[f64; 4]>>::from': _f64x4_new,
                        '<f64x4 as CmpLt>::cmp_lt': _f64x4_cmp('lt'), '<f64x4 as CmpGt>::cmp_gt': _f64x4_cmp('gt'), '<f64x4 as CmpEq>::cmp_eq': _f64x4_cmp('eq'),
                        'f64x4::move_mask': _move_mask})
NF = 5 if T == 'quick' else 9
ck.declare('V1_f64_filters_match_scalar', f'0..{NF} symbolic f64 values (every bit pattern), arbitrary threshold and pre-set result bits',
           'filter_{lt,gt,eq}_f64 set bit i exactly when the scalar comparison holds (or the bit was already set) and touch no other bit')
ck.bounds['vectorised filters'] = f'f64 kernels: {NF} elements (MIR executor, wide::f64x4 by contract); i64 kernels: {5 if T == "quick" else 9} elements (Kani, bit-exact)'
for fname, opc, fn in (('filter_lt_f64', 0, z3.fpLT), ('filter_gt_f64', 2, z3.fpGT), ('filter_eq_f64', 4, z3.fpEQ)):
    for n in sorted({0, 3, 4, NF}):
        st = ex.new_state()
        bits = [z3.BitVec(f'x{i}', 64) for i in range(n)]
        tb = z3.BitVec('thr', 64)
        pre = z3.BitVec('pre', 64)
        vals = [Flt(z3.fpBVToFP(b, z3.Float64())) for b in bits]
        thr = Flt(z3.fpBVToFP(tb, z3.Float64()))
        res_seq = Seq('u64', [Int(pre, False)])
        # re-run with the result sequence registered as a root so the final state exposes it
        st = ex.new_state()
        st.roots['res'] = res_seq
        rs = run(st, fname, [ref(Seq('f64', vals)), thr, ref(st.roots['res'])])
        ck.note_path_problem(rs, fname)
        for r in rs:
            wit = lambda m, opc=opc: {'simd': 'f64', 'opc': opc, 'bits': [hex(mval(m, b)) for b in bits], 'thr_bits': hex(mval(m, tb)), 'pre': mval(m, pre)}
            if r.status == 'panic':
                ck.require(ex, 'V1_f64_filters_match_scalar', r.pc, None, z3.BoolVal(False), wit, lambda m, w: 'simd-panic')
                continue
            if r.status != 'return':
                continue
            wit = lambda m, opc=opc: {'simd': 'f64', 'opc': opc, 'bits': [hex(mval(m, b)) for b in bits], 'thr_bits': hex(mval(m, tb)), 'pre': mval(m, pre)}
            got = r.st.roots['res'].items(r.st)[0].v
            expect = pre
            for i, v in enumerate(vals):
                expect = expect | z3.If(fn(v.v, thr.v), z3.BitVecVal(1 << i, 64), z3.BitVecVal(0, 64))
            ck.require(ex, 'V1_f64_filters_match_scalar', r.pc, None, got == expect, wit, lambda m, w: 'simd-f64')

# i64 kernels a second time, in the MIR executor with wide::i64x4 by its lane-wise contract (Kani executes the real
# `wide` code but stops at SIMD intrinsics it does not know, e.g. lane arithmetic; this engine does not depend on that)
def _i64x4_new(c):
    arr = c.args[0]
    return Struct('i64x4', {'lanes': list(arr.items(c.st))})


def _i64x4_splat(c):
    return Struct('i64x4', {'lanes': [c.args[0]] * 4})


def _i64x4_cmp(op):
    def f(c):
        a, b = _lanes(c, 0), _lanes(c, 1)
        fn = {'lt': lambda x, y: x < y, 'gt': lambda x, y: x > y, 'eq': lambda x, y: x == y}[op]
        return Struct('i64x4', {'lanes': [Int(z3.simplify(z3.If(fn(x.v, y.v), z3.BitVecVal(-1, 64), z3.BitVecVal(0, 64))), True) for x, y in zip(a, b)]})
    return f


def _i64x4_arith(op):
    def f(c):
        a, b = _lanes(c, 0), _lanes(c, 1)
        fn = {'add': lambda x, y: x + y, 'sub': lambda x, y: x - y, 'and': lambda x, y: x & y, 'or': lambda x, y: x | y, 'xor': lambda x, y: x ^ y}[op]
        return Struct('i64x4', {'lanes': [Int(z3.simplify(fn(x.v, y.v)), True) for x, y in zip(a, b)]})     # lane arithmetic wraps
    return f


def _i64x4_into(c):
    return Seq('i64', list(_lanes(c, 0)))


ex.extra_models.update({'i64x4::new': _i64x4_new, 'i64x4::splat': _i64x4_splat, '<i64x4 as From<[i64; 4]>>::from': _i64x4_new,
                        '<i64x4 as CmpLt>::cmp_lt': _i64x4_cmp('lt'), '<i64x4 as CmpGt>::cmp_gt': _i64x4_cmp('gt'), '<i64x4 as CmpEq>::cmp_eq': _i64x4_cmp('eq'),
                        '<i64x4 as Add>::add': _i64x4_arith('add'), '<i64x4 as Sub>::sub': _i64x4_arith('sub'), '<i64x4 as BitAnd>::bitand': _i64x4_arith('and'),
                        '<i64x4 as BitOr>::bitor': _i64x4_arith('or'), '<i64x4 as BitXor>::bitxor': _i64x4_arith('xor'),
                        '<[i64; 4] as From<i64x4>>::from': _i64x4_into, '<i64x4 as Into<[i64; 4]>>::into': _i64x4_into, 'i64x4::to_array': _i64x4_into,
                        'i64x4::as_array_ref': lambda c: ref(Seq('i64', list(_lanes(c, 0))))})
ck.declare('V3_i64_filters_match_scalar', f'0..{NF} symbolic i64 values, arbitrary threshold and pre-set result bits (MIR executor, wide::i64x4 by contract)',
           'filter_{lt,le,gt,ge,eq,ne}_i64 set bit i exactly when the scalar comparison holds (or the bit was already set) and touch no other bit')
ck.assumptions.append('V3: wide::i64x4 is modelled by its lane-wise contract (new/splat/cmp_*/wrapping lane arithmetic/into array); V2 executes the real wide code under Kani')
I64OPS = (('lt', 0, lambda x, t: x < t), ('le', 1, lambda x, t: x <= t), ('gt', 2, lambda x, t: x > t), ('ge', 3, lambda x, t: x >= t),
          ('eq', 4, lambda x, t: x == t), ('ne', 5, lambda x, t: x != t))
for oname, opc, fn in I64OPS:
    for n in (sorted({0, 3, 4, NF}) if T == 'quick' else (0, 3, 4, 5, 8)):     # 8 = two full SIMD chunks; 3 forks per lane for le/ge
        xs = [z3.BitVec(f'y{i}', 64) for i in range(n)]
        tv = z3.BitVec('ithr', 64)
        pre = z3.BitVec('ipre', 64)
        st = ex.new_state()
        st.roots['res'] = Seq('u64', [Int(pre, False)])
        rs = run(st, f'filter_{oname}_i64', [ref(Seq('i64', [Int(x, True) for x in xs])), Int(tv, True), ref(st.roots['res'])])
        ck.note_path_problem(rs, f'filter_{oname}_i64')
        for r in rs:
            wit = lambda m, opc=opc, xs=xs: {'simd': 'i64', 'opc': opc, 'vals': [mval(m, x, signed=True) for x in xs], 'thr': mval(m, tv, signed=True), 'pre': mval(m, pre)}
            if r.status == 'panic':
                ck.require(ex, 'V3_i64_filters_match_scalar', r.pc, None, z3.BoolVal(False), wit, lambda m, w: 'simd-panic')
                continue
            if r.status != 'return':
                continue
            got = r.st.roots['res'].items(r.st)[0].v
            # bit by bit (one lane per query: the monolithic 64-bit equality takes z3 half a minute per path)
            for i, x in enumerate(xs):
                bit = z3.simplify(z3.Extract(i, i, got))
                want = z3.Extract(i, i, pre) | z3.If(fn(x, tv), z3.BitVecVal(1, 1), z3.BitVecVal(0, 1))
                ck.require(ex, 'V3_i64_filters_match_scalar', r.pc, None, bit == want, wit, lambda m, w: 'simd-i64')
            if n < 64:
                ck.require(ex, 'V3_i64_filters_match_scalar', r.pc, None, z3.simplify(z3.Extract(63, n, got)) == z3.Extract(63, n, pre), wit, lambda m, w: 'simd-i64')

ck.declare('V2_i64_filters_match_scalar_kani', 'Kani/CBMC, all i64 values', 'filter_{lt,le,gt,ge,eq,ne}_i64 and bitmap_and/or agree bit for bit with the scalar predicate (real wide::i64x4 code)')
flt = ['q_filter', 'bitmap_ops'] if T == 'quick' else ['t_filter', 'bitmap_ops']
kres, kout = kani_run(ck, flt, timeout_s=1500 if T == 'quick' else 7200)
o = ck.obl['V2_i64_filters_match_scalar_kani']
kn = getattr(ck, 'kani', None)
if kn:
    o['paths'] = kn['harnesses']
    o['hyp_sat'] = kn['harnesses']
    o['queries'] = kn['checks']
    o['discharged'] = kn['harnesses'] - len(kres)
    ck.solver_s += kn['time']
OPC = {'lt': 0, 'le': 1, 'gt': 2, 'ge': 3, 'eq': 4, 'ne': 5}
for h in kres:
    o['violated'] += 1
    vals = kani_playback(h)
    w = {'simd': 'i64', 'harness': h}
    mm = re.match(r'[qt]_filter_(\w\w)_i64', h) if False else None
    import re as _re
    mm = _re.match(r'[qt]_filter_(\w\w)_i64', h)
    if vals and mm:
        le = lambda b: int.from_bytes(bytes(b), 'little')
        sle = lambda b: int.from_bytes(bytes(b), 'little', signed=True)
        N_ = 5 if h.startswith('q_') else 9
        n = le(vals[0])
        xs = [sle(b) for b in vals[1:1 + N_]][:n]
        w.update({'opc': OPC[mm.group(1)], 'vals': xs, 'thr': sle(vals[1 + N_]), 'pre': le(vals[2 + N_])})
    ck.violations.append(dict(obligation='V2_i64_filters_match_scalar_kani', key='simd-i64', witness=w, replayed=None))

# ------------------------------------------------------------------ native replay through RelationalEngine (index vs scan)
# ------------------------------------------------------------------ I1: a new index covers every row that already exists
# "Creating an index changes only speed": create_index / create_btree_index executed from MIR with the schema, the metadata write and
# the slab as stubs: scan_all yields 0..2 (3) existing rows with symbolic slab ids and opaque column values, index_add /
# btree_index_add record their arguments by value.
from mirsym.models import ok as _ok_, err as _err_, deref as _deref
NR_I1 = (0, 1, 2) if T == 'quick' else (0, 1, 2, 3)
ck.declare('I1_new_index_covers_existing_rows', f'create_index / create_btree_index on a table of {list(NR_I1)} rows (slab ids symbolic < 2^62, the indexed column is the table\'s first)',
           'Ok => exactly one entry per existing row is added: (value converted from the row\'s stored column value, row id = slab id + 1)')


def _i1_rec(kind):
    def f(c):
        c.st.notes.append((kind, tuple(_deref(c.st, a) if isinstance(a, Ptr) else a for a in c.args[1:])))
        return _ok_(UNIT, 'Result<(), RelationalError>')
    return f


def _i1_scan(c):
    rows = [Struct('(SlabRowId, Vec<SlabColumnValue>)', {0: Struct('SlabRowId', {0: Int(z3.BitVec(f'srow{i}', 64), False)}), 1: Seq('SlabColumnValue', [Opaque(f'cv{i}')])}) for i in range(c.st.env['nrows'])]
    return _ok_(Seq('(SlabRowId, Vec<SlabColumnValue>)', rows), 'Result<Vec<(SlabRowId, Vec<SlabColumnValue>)>, SlabError>')


def _i1_into(c):
    v = c.args[0]
    return Enum('Value', VK['Int'], {('Int', 0): Int(z3.BitVec('value_of_' + str(getattr(v, 'what', v)), 64), True)}, variant='Int')


i1_saved = dict(ex.extra_models)
_col0 = lambda: Struct('Column', {P.field('Column', 'name'): Str(text='c'), P.field('Column', 'nullable'): z3.BoolVal(True)}, lazy='COL')
ex.extra_models.update({
    'RelationalEngine::validate_name': lambda c: _ok_(UNIT, 'Result<(), RelationalError>'),
    'RelationalEngine::get_schema': lambda c: _ok_(Struct('Schema', {P.field('Schema', 'columns'): Seq('Column', [_col0()])}, lazy='SCHEMA'), 'Result<Schema, RelationalError>'),
    'RelationalEngine::check_index_limit': lambda c: _ok_(UNIT, 'Result<(), RelationalError>'),
    'RelationalEngine::index_meta_key': lambda c: Str(text='idxmeta'), 'RelationalEngine::btree_meta_key': lambda c: Str(text='btmeta'),
    'TensorStore::exists': lambda c: z3.BoolVal(False), 'TensorData::new': lambda c: Struct('TensorData', {}), 'TensorData::set': lambda c: UNIT,
    'RelationalEngine::put_maybe_durable': lambda c: _ok_(UNIT, 'Result<(), RelationalError>'),
    'RelationalEngine::slab': lambda c: ref(Struct('RelationalSlab', {}, lazy='SLAB')), 'RelationalSlab::scan_all': _i1_scan,
    'RelationalEngine::index_add': _i1_rec('index_add'), 'RelationalEngine::btree_index_add': _i1_rec('btree_add'),
    'RowId::as_u64': lambda c: (lambda v: v.fields[0] if isinstance(v, Struct) else v)(_deref(c.st, c.args[0]) if isinstance(c.args[0], Ptr) else c.args[0]),
    '<ColumnValue as Clone>::clone': lambda c: _deref(c.st, c.args[0]), '<ColumnValue as Into<Value>>::into': _i1_into,
})
_keep_len, ex.default_maxlen = ex.default_maxlen, 1
i1_ok = 0
try:
    for fn_, kind_ in (('create_index', 'index_add'), ('create_btree_index', 'btree_add')):
        for n in NR_I1:
            st = ex.new_state()
            st.env['nrows'] = n
            srows = [z3.BitVec(f'srow{i}', 64) for i in range(n)]
            for x in srows:
                st.assume(z3.ULT(x, z3.BitVecVal(1 << 62, 64)))
            eng = Struct('RelationalEngine', {P.field('RelationalEngine', 'ddl_lock'): Struct('RwLock', {'data': Cell(val=UNIT)})}, lazy='ENG')
            st.frames = []
            ex.call(st, 'RelationalEngine::' + fn_, [ref(eng), Str(z3.BitVec('table', 64)), Str(text='c')])
            res = ex.run(st)
            ck.note_path_problem(res, f'{fn_} rows={n}')
            for r in res:
                adds = [x for x in r.st.notes if x[0] in ('index_add', 'btree_add')]
                wit = lambda m, fn_=fn_, n=n, adds=adds: {'index_build': fn_, 'rows': n, 'entries_added': len(adds)}
                if r.status == 'panic':
                    ck.require(ex, 'I1_new_index_covers_existing_rows', r.pc, None, z3.BoolVal(False), wit, lambda m, w: 'index-build-panic')
                    continue
                if r.status != 'return' or r.retval.variant != 'Ok':
                    continue
                i1_ok += 1
                cs = [z3.BoolVal(len(adds) == n and all(a[0] == kind_ and len(a[1]) == 4 for a in adds))]
                for i in range(n):
                    hit = []
                    for a in adds:
                        if len(a[1]) != 4:
                            continue
                        v_ = a[1][2]
                        is_val = isinstance(v_, Enum) and v_.variant == 'Int' and str(v_.fields[('Int', 0)].v) == f'value_of_cv{i}'
                        hit.append(z3.And(z3.BoolVal(is_val), a[1][3].v == srows[i] + 1))
                    cs.append(z3.Or(hit) if hit else z3.BoolVal(False))
                ck.require(ex, 'I1_new_index_covers_existing_rows', r.pc, None, z3.And(cs), wit, lambda m, w: 'index-built-incomplete')
finally:
    ex.default_maxlen = _keep_len
    ex.extra_models.clear()
    ex.extra_models.update(i1_saved)
if i1_ok == 0:
    ck.inconclusive.append('I1 vacuous: no index build succeeded')
ck.functions += ['RelationalEngine::create_index', 'RelationalEngine::create_btree_index']

for v in ck.violations:
    w = v['witness']
    if 'index_build' in w:
        rep = Replay.call({'op': 'relational_index_build', 'kind': 'btree' if w['index_build'] == 'create_btree_index' else 'hash', 'rows': max(w['rows'], 2)})
        v['native'] = rep
        v['replayed'] = rep.get('violates')
    elif w.get('simd') == 'f64':
        rep = Replay.call({'op': 'simd_filter_f64', **w})
        v['native'] = rep
        v['replayed'] = rep.get('differs')
    elif w.get('simd') == 'i64' and 'vals' in w:
        rep = Replay.call({'op': 'simd_filter_i64', **w})
        v['native'] = rep
        v['replayed'] = rep.get('differs')
    elif 'v' in w and 't' in w:
        rep = Replay.call({'op': 'relational_index_vs_scan', 'row': w['v'], 'cond': w['t'],
                           'kind': 'hash' if v['obligation'].startswith('K1') else 'btree', 'order': v['key']})
        v['native'] = rep
        v['replayed'] = rep.get('differs')
ck.functions += ['simd::filter_lt_f64', 'simd::filter_gt_f64', 'simd::filter_eq_f64', 'simd::filter_*_i64 (Kani)', 'simd::bitmap_and', 'simd::bitmap_or', '<Value as PartialEq>::eq', 'Value::hash_key', 'Value::partial_cmp_value', 'OrderedKey::from_value', '<OrderedKey as Ord>::cmp', '<OrderedFloat as Ord>::cmp']
if __name__ == '__main__':
    ck.finish()
