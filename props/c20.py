"""C20 — encoders and decoders are exact inverses and reject garbage safely.
Decided by symbolic execution of the codecs' MIR (tensor_compress) + z3; see DESIGN.md §4/C20."""
import sys
import os
sys.path.insert(0, os.path.dirname(os.path.dirname(os.path.abspath(__file__))))
from props.common import *

ck = Check('C20')
T = ck.tier
ex = ck.executor('tensor_compress', unroll=96, max_paths=200000)

N_VARINT = 2 if T == 'quick' else 3
N_IDS = 2 if T == 'quick' else 3
N_BYTES = 4 if T == 'quick' else 6
N_RLE = 4 if T == 'quick' else 6
ck.bounds = {'varint values': N_VARINT, 'id list length': f'0..{N_IDS}', 'delta list length': '0..3',
             'raw decoder input bytes': f'0..{N_BYTES}', 'rle elements': f'0..{N_RLE}', 'integers': 'full width (u64/u8/i64)',
             'loop unroll': 96}
ck.assumptions = ['outside: bitcode message round trip, LZ4, tensor-train error bound, message_validation']
MAX_REPLAY = 60 if T == 'quick' else 400


def run_fn(fname, args, st=None):
    st = st or ex.new_state()
    st.frames = []
    ex.call(st, fname, args)
    return ex.run(st)


def u64list(prefix, n, w=64, signed=False):
    return [Int(z3.BitVec(f'{prefix}{i}', w), signed) for i in range(n)]


def check_replay(name, r, m, req, got_fn):
    """translator validation: the real compiled function on the model's inputs must agree"""
    if ck.replayed >= MAX_REPLAY * 8:
        return
    rep = Replay.call(req)
    ck.replayed += 1
    ok_, detail = got_fn(rep)
    if not ok_:
        ck.replay_mismatch.append(f'{name}: {json.dumps(req)} -> {json.dumps(rep)[:200]} vs executor {detail}')


# --------------------------------------------------------------- A. varint round trip
ck.declare('varint_roundtrip', f'{N_VARINT} values, full u64', 'varint_decode(varint_encode(v)) == v and len(enc per value) <= 10')
for n in range(0, N_VARINT + 1):
    vals = u64list('v', n)
    res = run_fn('varint_encode', [ref(Seq('u64', list(vals)))])
    ck.note_path_problem(res, f'varint_encode n={n}')
    cnt = 0
    for r in res:
        if r.status == 'panic':
            ck.require(ex, 'varint_roundtrip', r.pc, None, z3.BoolVal(False), lambda m: {'panic': r.msg, 'vals': [mval(m, v.v) for v in vals]})
            continue
        if r.status != 'return':
            continue
        enc = r.retval
        res2 = run_fn('varint_decode', [ref(enc)], r.st)
        ck.note_path_problem(res2, f'varint_decode after encode n={n}')
        for r2 in res2:
            if r2.status == 'panic':
                ck.require(ex, 'varint_roundtrip', r2.pc, None, z3.BoolVal(False), lambda m: {'panic': r2.msg, 'vals': [mval(m, v.v) for v in vals]})
                continue
            if r2.status != 'return':
                continue
            out = r2.retval.elems
            if len(out) != n:
                concl = z3.BoolVal(False)
            else:
                concl = z3.And([a.v == b.v for a, b in zip(out, vals)] + [z3.BoolVal(len(enc.elems) <= 10 * n)])
            okd = ck.require(ex, 'varint_roundtrip', r2.pc, None, concl,
                             lambda m: {'vals': [mval(m, v.v) for v in vals]}, lambda m, w: 'varint')
            cnt += 1
            if cnt <= MAX_REPLAY // 4:
                rr, m = ex.solver.model(r2.pc)
                if m is not None:
                    cv = [mval(m, v.v) for v in vals]
                    ce = conc(m, enc, r2.st)
                    check_replay('varint_encode', r2, m, {'op': 'varint_encode', 'vals': cv}, lambda rep: (rep.get('out') == ce, ce))
                    if n == N_VARINT and cnt == 1:
                        ck.sample({'obligation': 'varint_roundtrip', 'vals': cv, 'encoded': ce})

# --------------------------------------------------------------- A2. long lists, one large value
# A decoder that works in blocks (alignment, chunking, SIMD-style fast paths) can only go wrong on inputs longer than a
# block.  Full-width lists of that length are out of reach (10 length classes per value), so the family is: n values,
# one of them arbitrary (any of the 10 encoded lengths, at any position), the others arbitrary single-byte values.
LONG_NS = (9, 17) if T == 'quick' else tuple(range(3, 26))
ck.declare('varint_roundtrip_long', f'lists of n in {list(LONG_NS)} values: one arbitrary u64 at any position, the others arbitrary values < 128',
           'varint_decode(varint_encode(v)) == v')
ck.bounds['long varint lists'] = f'n in {list(LONG_NS)}; exactly one value unconstrained, the rest < 128 (so encodings reach {max(LONG_NS) + 9} bytes)'
def _chunks(items, k):
    return [items[i::k] for i in range(k) if items[i::k]]


def _long_case(case):
    n, pos = case
    for _a in (0,):
        vals = u64list('w', n)
        st = ex.new_state()
        for i, v in enumerate(vals):
            if i != pos:
                st.assume(z3.ULT(v.v, 128))
        res = run_fn('varint_encode', [ref(Seq('u64', list(vals)))], st)
        ck.note_path_problem(res, f'varint_encode long n={n} pos={pos}')
        for r in res:
            wit = lambda m, vals=vals: {'vals': [mval(m, v.v) for v in vals]}
            if r.status == 'panic':
                ck.require(ex, 'varint_roundtrip_long', r.pc, None, z3.BoolVal(False), wit, lambda m, w: 'varint')
                continue
            if r.status != 'return':
                continue
            res2 = run_fn('varint_decode', [ref(r.retval)], r.st)
            ck.note_path_problem(res2, f'varint_decode long n={n} pos={pos}')
            for r2 in res2:
                if r2.status == 'panic':
                    ck.require(ex, 'varint_roundtrip_long', r2.pc, None, z3.BoolVal(False), wit, lambda m, w: 'varint')
                    continue
                if r2.status != 'return':
                    continue
                out = r2.retval.elems
                concl = z3.And([a.v == b.v for a, b in zip(out, vals)]) if len(out) == n else z3.BoolVal(False)
                ck.require(ex, 'varint_roundtrip_long', r2.pc, None, concl, wit, lambda m, w: 'varint')


ck.parallel(_chunks([(n, pos) for n in LONG_NS for pos in range(n)], 16 if T != 'quick' else 4), lambda ch: [_long_case(c) for c in ch] and None, jobs=16 if T != 'quick' else 4)

# --------------------------------------------------------------- B/C. delta and id-list round trip
ck.declare('ids_roundtrip_sorted', f'lists of 0..{N_IDS} non-decreasing u64', 'decompress_ids(compress_ids(x)) == x for sorted x')
ck.declare('ids_roundtrip_unsorted', f'lists of 0..{N_IDS} u64, some descent', 'same for lists that are not sorted')
ck.obl['ids_roundtrip_unsorted']['allow_vacuous'] = False
ck.declare('delta_roundtrip', 'lists of 0..3 arbitrary u64', 'delta_decode(delta_encode(x)) == x')


def sortedness(vals):
    return z3.And([z3.ULE(a.v, b.v) for a, b in zip(vals, vals[1:])]) if len(vals) > 1 else z3.BoolVal(True)


def roundtrip(encf, decf, vals, oblig_sorted, oblig_unsorted, replay_op):
    n = len(vals)
    res = run_fn(encf, [ref(Seq('u64', list(vals)))])
    ck.note_path_problem(res, f'{encf} n={n}')
    cnt = 0
    for r in res:
        if r.status == 'panic':
            for o in (oblig_sorted, oblig_unsorted):
                if o:
                    ck.require(ex, o, r.pc, None, z3.BoolVal(False), lambda m: {'panic': r.msg})
            continue
        if r.status != 'return':
            continue
        enc = r.retval
        res2 = run_fn(decf, [ref(enc)], r.st)
        ck.note_path_problem(res2, f'{decf} n={n}')
        for r2 in res2:
            if r2.status not in ('return', 'panic'):
                continue
            if r2.status == 'panic':
                concl = z3.BoolVal(False)
            else:
                out = r2.retval.elems
                concl = z3.BoolVal(False) if len(out) != n else z3.And([a.v == b.v for a, b in zip(out, vals)] + [z3.BoolVal(True)])
            wit = lambda m: {'ids': [mval(m, v.v) for v in vals]}
            srt = sortedness(vals)
            if oblig_sorted:
                ck.require(ex, oblig_sorted, r2.pc, srt, concl, wit, lambda m, w: 'sorted')
            if oblig_unsorted and n >= 2:
                ck.require(ex, oblig_unsorted, r2.pc, z3.Not(srt), concl, wit, lambda m, w: 'delta-unsorted')
            cnt += 1
            if replay_op and cnt <= MAX_REPLAY // 3 and r2.status == 'return':
                rr, m = ex.solver.model(r2.pc)
                if m is not None:
                    cv = [mval(m, v.v) for v in vals]
                    ce = conc(m, enc, r2.st)
                    cd = conc(m, r2.retval, r2.st)
                    check_replay(replay_op, r2, m, {'op': 'ids_roundtrip', 'vals': cv},
                                 lambda rep: (rep.get('enc') == ce and rep.get('dec') == cd, [ce, cd]))


for n in range(0, N_IDS + 1):
    roundtrip('compress_ids', 'decompress_ids', u64list('id', n), 'ids_roundtrip_sorted', 'ids_roundtrip_unsorted', 'ids_roundtrip')
for n in range(0, 4):
    vals = u64list('d', n)
    res = run_fn('delta_encode', [ref(Seq('u64', list(vals)))])
    ck.note_path_problem(res, f'delta_encode n={n}')
    for r in res:
        if r.status != 'return':
            continue
        res2 = run_fn('delta_decode', [ref(r.retval)], r.st)
        ck.note_path_problem(res2, f'delta_decode n={n}')
        for r2 in res2:
            if r2.status != 'return':
                continue
            out = r2.retval.elems
            concl = z3.BoolVal(False) if len(out) != n else z3.And([a.v == b.v for a, b in zip(out, vals)] + [z3.BoolVal(True)])
            ck.require(ex, 'delta_roundtrip', r2.pc, None, concl, lambda m: {'ids': [mval(m, v.v) for v in vals]},
                       lambda m, w: 'delta-unsorted' if any(a > b for a, b in zip(w['ids'], w['ids'][1:])) else 'delta-sorted')

# replay every counterexample on the real build
for v in ck.violations:
    if v['obligation'] in ('ids_roundtrip_sorted', 'ids_roundtrip_unsorted', 'delta_roundtrip') and 'ids' in v['witness']:
        if v['obligation'] == 'delta_roundtrip':
            e = Replay.call({'op': 'delta_encode', 'vals': v['witness']['ids']})
            d = Replay.call({'op': 'delta_decode', 'vals': e.get('out', [])})
            v['replayed'] = d.get('out') != v['witness']['ids']
            v['native'] = {'enc': e.get('out'), 'dec': d.get('out')}
        else:
            rep = Replay.call({'op': 'ids_roundtrip', 'vals': v['witness']['ids']})
            v['replayed'] = (rep.get('equal') is False) or bool(rep.get('panic'))
            v['native'] = rep
    elif v['obligation'] in ('varint_roundtrip', 'varint_roundtrip_long') and 'vals' in v['witness']:
        e = Replay.call({'op': 'varint_encode', 'vals': v['witness']['vals']})
        d = Replay.call({'op': 'varint_decode', 'bytes': e.get('out', [])})
        v['replayed'] = d.get('out') != v['witness']['vals'] or len(e.get('out', [])) > 10 * len(v['witness']['vals'])
        v['native'] = {'enc': e.get('out'), 'dec': d.get('out')}

# --------------------------------------------------------------- D. decoders on arbitrary bytes
ck.declare('decoder_total', f'every byte string of length 0..{N_BYTES}', 'varint_decode / decompress_ids neither panic nor produce more values than input bytes')
for fname in ('varint_decode', 'decompress_ids'):
    for n in range(0, N_BYTES + 1):
        bs = u64list('b', n, 8)
        res = run_fn(fname, [ref(Seq('u8', list(bs)))])
        ck.note_path_problem(res, f'{fname} raw n={n}')
        k = 0
        for r in res:
            if r.status == 'panic':
                ck.require(ex, 'decoder_total', r.pc, None, z3.BoolVal(False), lambda m: {'fn': fname, 'bytes': [mval(m, b.v) for b in bs], 'panic': r.msg},
                           lambda m, w: 'decoder-panic')
            elif r.status == 'return':
                ck.require(ex, 'decoder_total', r.pc, None, z3.BoolVal(len(r.retval.elems) <= n),
                           lambda m: {'fn': fname, 'bytes': [mval(m, b.v) for b in bs]}, lambda m, w: 'decoder-len')
                k += 1
                if k <= 6:
                    rr, m = ex.solver.model(r.pc)
                    if m is not None:
                        cb = [mval(m, b.v) for b in bs]
                        co = conc(m, r.retval, r.st)
                        check_replay(fname, r, m, {'op': fname, 'bytes': cb}, lambda rep: (rep.get('out') == co, co))
                        if n == N_BYTES and k == 1:
                            ck.sample({'obligation': 'decoder_total', 'fn': fname, 'bytes': cb, 'decoded': co})
# malformed input of the kind a bounded decoder must survive: long runs of continuation bytes (far beyond the 10 bytes a
# u64 needs), low seven bits arbitrary, followed by one arbitrary byte
RUNS = (11, 40, 70) if T == 'quick' else (11, 20, 37, 40, 64, 70, 130, 260)
ck.declare('decoder_total_long_runs', f'byte strings of {list(RUNS)} continuation bytes (low 7 bits arbitrary) plus one arbitrary byte', 'varint_decode / decompress_ids do not panic and return at most one value per input byte')
_unroll0 = ex.unroll
ex.unroll = max(ex.unroll, max(RUNS) + 8)       # the decoder loops once per input byte
for fname in ('varint_decode', 'decompress_ids'):
    for n in RUNS:
        bs = u64list('c', n + 1, 8)
        st = ex.new_state()
        for b in bs[:-1]:
            st.assume(z3.UGE(b.v, 0x80))
        res = run_fn(fname, [ref(Seq('u8', list(bs)))], st)
        ck.note_path_problem(res, f'{fname} run n={n}')
        for r in res:
            wit = lambda m, fname=fname, bs=bs: {'fn': fname, 'bytes': [mval(m, b.v) for b in bs]}
            if r.status == 'panic':
                ck.require(ex, 'decoder_total_long_runs', r.pc, None, z3.BoolVal(False), lambda m, fname=fname, bs=bs, r=r: {'fn': fname, 'bytes': [mval(m, b.v) for b in bs], 'panic': r.msg}, lambda m, w: 'decoder-panic')
            elif r.status == 'return':
                ck.require(ex, 'decoder_total_long_runs', r.pc, None, z3.BoolVal(len(r.retval.elems) <= n + 1), wit, lambda m, w: 'decoder-len')
ex.unroll = _unroll0
for v in ck.violations:
    if v['obligation'] in ('decoder_total', 'decoder_total_long_runs'):
        rep = Replay.call({'op': v['witness']['fn'], 'bytes': v['witness']['bytes']})
        v['replayed'] = bool(rep.get('panic')) or len(rep.get('out', [])) > len(v['witness']['bytes'])
        v['native'] = rep

# --------------------------------------------------------------- E. run-length coding (generic MIR, T = u8 and i64)
ck.declare('rle_roundtrip', f'0..{N_RLE} elements of u8 and of i64', 'rle_decode(rle_encode(x)) == x; runs >= 1, sum(runs) == len, adjacent run values differ')
for (tw, tsg, tname) in ((8, False, 'u8'), (64, True, 'i64')):
    for n in range(0, N_RLE + 1):
        vals = u64list('e', n, tw, tsg)
        res = run_fn('rle_encode', [ref(Seq(tname, list(vals)))])
        ck.note_path_problem(res, f'rle_encode<{tname}> n={n}')
        k = 0
        for r in res:
            wit = lambda m: {'ty': tname, 'vals': [mval(m, v.v, tsg) for v in vals]}
            if r.status == 'panic':
                ck.require(ex, 'rle_roundtrip', r.pc, None, z3.BoolVal(False), wit, lambda m, w: 'rle')
                continue
            if r.status != 'return':
                continue
            enc = r.retval
            values = enc.fields[0].elems
            runs = enc.fields[1].elems
            shape = z3.And([z3.UGE(x.v, 1) for x in runs] + [a.v != b.v for a, b in zip(values, values[1:])] +
                           [z3.BoolVal(len(values) == len(runs))] +
                           [sum([z3.ZeroExt(32, x.v) for x in runs], z3.BitVecVal(0, 64)) == n])
            res2 = run_fn('rle_decode', [ref(enc)], r.st)
            ck.note_path_problem(res2, f'rle_decode<{tname}> n={n}')
            for r2 in res2:
                if r2.status == 'panic':
                    ck.require(ex, 'rle_roundtrip', r2.pc, None, z3.BoolVal(False), wit, lambda m, w: 'rle')
                    continue
                if r2.status != 'return':
                    continue
                out = r2.retval.elems
                concl = z3.BoolVal(False) if len(out) != n else z3.And([a.v == b.v for a, b in zip(out, vals)] + [shape])
                ck.require(ex, 'rle_roundtrip', r2.pc, None, concl, wit, lambda m, w: 'rle')
                k += 1
                if k <= 4:
                    rr, m = ex.solver.model(r2.pc)
                    if m is not None:
                        cv = [mval(m, v.v, tsg) for v in vals]
                        cvals = conc(m, enc.fields[0], r2.st)
                        cruns = conc(m, enc.fields[1], r2.st)
                        check_replay('rle', r2, m, {'op': 'rle_roundtrip_' + tname, 'vals': cv},
                                     lambda rep: (rep.get('values') == cvals and rep.get('runs') == cruns and rep.get('equal') is True, [cvals, cruns]))
                        if n == N_RLE and k == 1:
                            ck.sample({'obligation': 'rle_roundtrip', 'ty': tname, 'vals': cv, 'values': cvals, 'runs': cruns})
# long inputs: a constant background with up to two outliers at any positions (block-wise / strided encoders can only
# go wrong beyond one block; full-width lists of that length are out of reach, this family is linear in the length)
RLE_LONG = (17, 33) if T == 'quick' else (5, 9, 17, 33, 40)
ck.declare('rle_roundtrip_long', f'i64 lists of length {list(RLE_LONG)}: one arbitrary background value with arbitrary values at one or two positions (every position pair in thorough, '
           'every position plus every pair 16 apart in quick)', 'rle_decode(rle_encode(x)) == x and sum(runs) == len')
ck.bounds['long rle lists'] = f'lengths {list(RLE_LONG)}, background value and outliers full-width i64'
_rle_items = []
for n in RLE_LONG:
    singles = [(p,) for p in range(n)]
    pairs = [(p, q) for p in range(n) for q in range(p + 1, n)] if T != 'quick' else [(p, p + d) for p in range(n) for d in (1, 15, 16, 17) if p + d < n]
    _rle_items += [(n, pos) for pos in singles + pairs]


def _rle_case(case):
    n, pos = case
    for _a in (0,):
        bg = z3.BitVec('bg', 64)
        outs = {p: z3.BitVec(f'o{p}', 64) for p in pos}
        vals = [Int(outs.get(i, bg), True) for i in range(n)]
        res = run_fn('rle_encode', [ref(Seq('i64', list(vals)))])
        ck.note_path_problem(res, f'rle_encode long n={n} pos={pos}')
        for r in res:
            wit = lambda m, vals=vals: {'ty': 'i64', 'vals': [mval(m, v.v, True) for v in vals]}
            if r.status == 'panic':
                ck.require(ex, 'rle_roundtrip_long', r.pc, None, z3.BoolVal(False), wit, lambda m, w: 'rle')
                continue
            if r.status != 'return':
                continue
            enc = r.retval
            runs = enc.fields[1].elems
            total = sum([z3.ZeroExt(32, x.v) for x in runs], z3.BitVecVal(0, 64)) == n
            res2 = run_fn('rle_decode', [ref(enc)], r.st)
            ck.note_path_problem(res2, f'rle_decode long n={n}')
            for r2 in res2:
                if r2.status == 'panic':
                    ck.require(ex, 'rle_roundtrip_long', r2.pc, None, z3.BoolVal(False), wit, lambda m, w: 'rle')
                    continue
                if r2.status != 'return':
                    continue
                out = r2.retval.elems
                concl = z3.BoolVal(False) if len(out) != n else z3.And([a.v == b.v for a, b in zip(out, vals)] + [total])
                ck.require(ex, 'rle_roundtrip_long', r2.pc, None, concl, wit, lambda m, w: 'rle')


ck.parallel(_chunks(_rle_items, 16 if T != 'quick' else 4), lambda ch: [_rle_case(c) for c in ch] and None, jobs=16 if T != 'quick' else 4)

for v in ck.violations:
    if v['obligation'] in ('rle_roundtrip', 'rle_roundtrip_long'):
        rep = Replay.call({'op': 'rle_roundtrip_' + v['witness']['ty'], 'vals': v['witness']['vals']})
        v['replayed'] = rep.get('equal') is False or bool(rep.get('panic'))
        v['native'] = rep

# --------------------------------------------------------------- F. TCP frame length handling (tensor_chain/src/tcp/framing.rs)
exf = ck.executor('tensor_chain', unroll=24, max_paths=50000)
Pf = exf.prog
ck.declare('frame_v1', 'payload image of 0..3 bytes, any max_frame_length', 'encode = 4-byte big-endian payload length ++ payload, refused exactly when the payload exceeds max_frame_length; decode_payload(encode(m)[4..]) = m; decode refuses longer payloads')
ck.declare('frame_v2', 'same, compression off and on (compressor uninterpreted, 1..3 output bytes)', 'encode_v2 = BE length of (flag byte + payload) ++ flag ++ payload, refused exactly when flag+payload exceeds the limit; decode_payload_v2 inverts it; an empty v2 payload is rejected')
ck.bounds['tcp frames'] = 'serialized message image 0..3 bytes, max_frame_length any usize, compressed image 1..3 bytes; the async read/write loops are not executed'
ck.assumptions.append('tcp framing: bitcode as image table, compression::compress/decompress as an uninterpreted invertible pair; read_frame*/write_frame* (async state machines) are not executed')
FC = lambda n: Pf.field('LengthDelimitedCodec', n)
CM = {n: Pf.variant_index('CompressionMethod', n) for n in ('None', 'Lz4')}


def frun(st, fname, args):
    st.frames = []
    exf.call(st, fname, args)
    return exf.run(st)


def ov_compress(c):
    data = c.args[0]
    from mirsym.models import as_seq
    src = as_seq(c.st, data)
    n = c.st.env.get('comp_len', 2)
    out = [Int(z3.BitVec(f'cmp{len(c.st.env.setdefault("comp", []))}_{i}', 8), False) for i in range(n)]
    c.st.env['comp'].append((out, list(src.items(c.st))))
    return Seq('u8', list(out))


def ov_decompress(c):
    from mirsym.models import as_seq, ok as _ok, err as _err
    src = as_seq(c.st, c.args[0]).items(c.st)
    for out, orig in c.st.env.get('comp', []):
        if len(out) == len(src) and all(a.v.eq(b.v) for a, b in zip(out, src)):
            return _ok(Seq('u8', list(orig)))
    if c.st.choose(2, 'decompress unknown') == 0:
        return _err(Opaque('TcpError'))
    return _ok(Seq('u8', None, lazy=c.st.fresh_name('decompressed'), maxlen=3))


exf.extra_models.update({'compress': ov_compress, 'compression::compress': ov_compress, 'tcp::compression::compress': ov_compress,
                         'decompress': ov_decompress, 'compression::decompress': ov_decompress, 'tcp::compression::decompress': ov_decompress})


def be32(bs):
    return z3.Concat(*[b.v for b in bs])


for L in (0, 1, 3):
    for compress_on in (False, True):
        for LC in ((2,) if not compress_on else (1, 3)):
            st = exf.new_state()
            st.env['codec_len'] = L
            st.env['comp_len'] = LC
            M = z3.BitVec('max_frame', 64)
            msg = st.fresh('Message', 'msg')
            st.roots['msg'] = msg
            ccfg = Struct('CompressionConfig', {Pf.field('CompressionConfig', 'enabled'): z3.BoolVal(compress_on),
                                                Pf.field('CompressionConfig', 'method'): Enum('CompressionMethod', CM['Lz4'], {}, variant='Lz4'),
                                                Pf.field('CompressionConfig', 'min_size'): Int(z3.BitVec('min_size', 64), False)}, lazy='ccfg')
            codec = Struct('LengthDelimitedCodec', {FC('max_frame_length'): Int(M, False), FC('compression'): ccfg, FC('compress_enabled'): z3.BoolVal(compress_on)})
            st.roots['codec'] = codec
            wit = lambda m, L=L, LC=LC, compress_on=compress_on: {'frame': True, 'payload_len': L, 'max_frame_length': mval(m, M), 'compress': compress_on, 'compressed_len': LC}
            if not compress_on:
                # ---- v1
                for r in frun(st.clone(), 'LengthDelimitedCodec::encode', [ref(codec), ref(msg)]):
                    if r.status not in ('return', 'panic'):
                        ck.note_path_problem([r], 'encode')
                        continue
                    if r.status == 'panic':
                        ck.require(exf, 'frame_v1', r.pc, None, z3.BoolVal(False), wit, lambda m, w: 'frame-panic')
                        continue
                    if r.retval.variant == 'Ok':
                        fr = r.retval.fields[('Ok', 0)].items(r.st)
                        img = r.st.env['codec'][0][0]
                        good = len(fr) == 4 + L and all(a.v.eq(b.v) for a, b in zip(fr[4:], img))
                        ck.require(exf, 'frame_v1', r.pc, None, z3.And(z3.BoolVal(good), be32(fr[:4]) == L if len(fr) >= 4 else z3.BoolVal(False), z3.UGE(M, L)), wit, lambda m, w: 'frame-v1-encode')
                        # decode what was sent
                        for r2 in frun(r.st, 'LengthDelimitedCodec::decode_payload', [ref(r.st.roots['codec']), ref(Seq('u8', list(fr[4:])))]):
                            if r2.status == 'return':
                                back = r2.retval
                                okk = back.variant == 'Ok' and getattr(back.fields[('Ok', 0)], 'lazy', None) == 'msg'
                                ck.require(exf, 'frame_v1', r2.pc, None, z3.BoolVal(okk), wit, lambda m, w: 'frame-v1-roundtrip')
                            else:
                                ck.note_path_problem([r2], 'decode_payload')
                    else:
                        ck.require(exf, 'frame_v1', r.pc, None, z3.ULT(M, L), wit, lambda m, w: 'frame-v1-refused')
                # decode of an arbitrary payload longer than the limit is refused
                pl = Seq('u8', [Int(z3.BitVec(f'p{i}', 8), False) for i in range(L)])
                for r in frun(st.clone(), 'LengthDelimitedCodec::decode_payload', [ref(codec), ref(pl)]):
                    if r.status == 'return':
                        ck.require(exf, 'frame_v1', r.pc, z3.ULT(M, L), z3.BoolVal(r.retval.variant == 'Err'), wit, lambda m, w: 'frame-v1-oversize-accepted')
            # ---- v2
            for r in frun(st.clone(), 'LengthDelimitedCodec::encode_v2', [ref(codec), ref(msg)]):
                if r.status == 'panic':
                    ck.require(exf, 'frame_v2', r.pc, None, z3.BoolVal(False), wit, lambda m, w: 'frame-panic')
                    continue
                if r.status != 'return':
                    ck.note_path_problem([r], 'encode_v2')
                    continue
                if r.retval.variant == 'Ok':
                    fr = r.retval.fields[('Ok', 0)].items(r.st)
                    body = len(fr) - 4
                    good = body >= 1
                    ck.require(exf, 'frame_v2', r.pc, None, z3.And(z3.BoolVal(good), be32(fr[:4]) == body if len(fr) >= 4 else z3.BoolVal(False), z3.UGE(M, body)), wit, lambda m, w: 'frame-v2-encode')
                    for r2 in frun(r.st, 'LengthDelimitedCodec::decode_payload_v2', [ref(r.st.roots['codec']), ref(Seq('u8', list(fr[4:])))]):
                        if r2.status == 'return':
                            back = r2.retval
                            okk = back.variant == 'Ok' and getattr(back.fields[('Ok', 0)], 'lazy', None) == 'msg'
                            # whatever encode_v2 emitted must be accepted by decode_payload_v2 of the same codec
                            ck.require(exf, 'frame_v2', r2.pc, None, z3.BoolVal(okk), wit, lambda m, w: 'frame-v2-roundtrip')
                        elif r2.status == 'panic':
                            ck.require(exf, 'frame_v2', r2.pc, None, z3.BoolVal(False), wit, lambda m, w: 'frame-panic')
                        else:
                            ck.note_path_problem([r2], 'decode_payload_v2')
                else:
                    # refused only when flag + payload (raw or compressed) exceeds the limit
                    ck.require(exf, 'frame_v2', r.pc, None, z3.Or(z3.ULT(M, 1 + L), z3.ULT(M, 1 + LC) if compress_on else z3.BoolVal(False)), wit, lambda m, w: 'frame-v2-refused')
for r in frun(exf.new_state(), 'LengthDelimitedCodec::decode_payload_v2', [ref(Struct('LengthDelimitedCodec', {}, lazy='cd')), ref(Seq('u8', []))]):
    if r.status == 'return':
        ck.require(exf, 'frame_v2', r.pc, None, z3.BoolVal(r.retval.variant == 'Err'), lambda m: {'frame': True, 'empty': True}, lambda m, w: 'frame-v2-empty')
    elif r.status == 'panic':
        ck.require(exf, 'frame_v2', r.pc, None, z3.BoolVal(False), lambda m: {'frame': True, 'empty': True}, lambda m, w: 'frame-panic')
for v in ck.violations:
    if v['witness'].get('frame'):
        rep = Replay.call({'op': 'tcp_frame', **v['witness']})
        v['native'] = rep
        v['replayed'] = rep.get('violates')

ck.functions += ['LengthDelimitedCodec::encode', 'LengthDelimitedCodec::decode_payload', 'LengthDelimitedCodec::encode_v2', 'LengthDelimitedCodec::decode_payload_v2', 'length_prefix', 'varint_encode', 'varint_decode', 'delta_encode', 'delta_decode', 'compress_ids', 'decompress_ids',
                 'rle_encode', 'rle_decode', 'RleEncoded::len']
if __name__ == '__main__':
    ck.finish()
