# shared Raft pre-state construction and environment stubs; exec()d by c01.py and c10.py (needs ck, ex, P, T in scope)
F = P.field
U64 = lambda v: z3.BitVecVal(v, 64)

# ---------------------------------------------------------------- environment overrides (nondeterministic stubs)


def nd_result(c):
    """Result<(), ChainError>: Ok(()) or Err(opaque) – caller explores both"""
    if c.st.choose(2, 'persist ok/err') == 0:
        return ok(UNIT, 'Result<(), ChainError>')
    c.st.notes.append(('persist_failed', c.canon))
    return err(Opaque('ChainError'), 'Result<(), ChainError>')


def persist_tv(c):
    r = nd_result(c)
    if r.variant == 'Ok':
        term = c.args[1]
        vote = c.args[2]
        c.st.notes.append(('persist_term_vote', term, vote))
    return r


def persist_entry(c):
    r = nd_result(c)
    if r.variant == 'Ok':
        c.st.notes.append(('persist_entry', c.args[1]))
    return r


def wal_append(c):
    r = nd_result(c)
    if r.variant == 'Ok':
        e = c.args[1].load(c.st) if isinstance(c.args[1], Ptr) else c.args[1]
        c.st.notes.append(('wal_record', e))
    return r


def fresh_bool(c):
    return z3.Bool(c.st.fresh_name('env_bool'))


def fresh_f32(c):
    return Flt(z3.FP(c.st.fresh_name('env_f32'), z3.Float32()))


def logentry_clone(c):
    e = c.args[0].load(c.st)
    r = Struct('LogEntry', {F('LogEntry', 'term'): e.load(F('LogEntry', 'term'), 'u64', c.st),
                            F('LogEntry', 'index'): e.load(F('LogEntry', 'index'), 'u64', c.st)}, lazy=(e.lazy or 'entry') + "'")
    return r


def noop(c):
    return UNIT


def fast_path_result(c):
    return Struct('FastPathResult', {}, lazy=c.st.fresh_name('fpr'))


ex.extra_models.update({
    'RaftNode::persist_term_and_vote': persist_tv,
    'RaftNode::persist_log_entry': persist_entry,
    'RaftWal::append': wal_append,
    'RaftNode::is_peer_healthy': fresh_bool,
    'RaftNode::geometric_vote_bias': fresh_f32,
    '<LogEntry as Clone>::clone': logentry_clone,
    'FastPathState::clear_leader': noop, 'FastPathValidator::reset': noop, 'FastPathState::add_embedding': noop,
    'FastPathValidator::record_validation': noop, 'RaftStats::record_fast_path': noop,
    'RaftStats::record_full_validation': noop, 'RaftStats::record_rejected': noop,
    'FastPathValidator::check_fast_path': fast_path_result,
    'FastPathState::get_embeddings': lambda c: Seq('Vec<f32>', []),
    'SparseVector::to_dense': lambda c: Seq('f32', []),
    '<SparseVector as Clone>::clone': lambda c: c.args[0].load(c.st),
    'QuorumTracker::record_success': noop, 'QuorumTracker::record_failure': noop, 'QuorumTracker::mark_reachable': noop,
    'RaftNode::stop_heartbeat_task': noop,
    'Option::as_deref': lambda c: Enum('Option', z3.BitVec(c.st.fresh_name('asderef'), 64), {}, lazy=c.st.fresh_name('asderef')),
})

# ---------------------------------------------------------------- pre-state construction

T_PERSIST = 'parking_lot::lock_api::RwLock<parking_lot::RawRwLock, raft::PersistentState>'
T_VOLATILE = 'parking_lot::lock_api::RwLock<parking_lot::RawRwLock, raft::VolatileState>'
T_LEADERSHIP = 'parking_lot::lock_api::RwLock<parking_lot::RawRwLock, raft::LeadershipState>'


class Node:
    """handles into a lazily created RaftNode, with the pre-state symbols the oracles need"""

    def __init__(self, st, loglen, name='N', base=None):
        self.base = base if base is not None else U64(0)
        self.st = st
        self.node = st.fresh('RaftNode', name)
        st.roots['node'] = self.node
        self.ptr = ref(self.node)
        st.roots['nodeptr'] = self.ptr
        P_ = self.persistent(st)
        self.term0 = P_.load(F('PersistentState', 'current_term'), 'u64', st)
        self.vote0 = P_.load(F('PersistentState', 'voted_for'), 'std::option::Option<std::string::String>', st)
        self.vote0_some = self.vote0.load(('Some', 0), 'std::string::String', st)
        self.vote0_disc = self.vote0.disc
        ents = []
        self.log0 = []
        for i in range(loglen):
            e = st.fresh('LogEntry', f'{name}.log[{i}]')
            t = e.load(F('LogEntry', 'term'), 'u64', st)
            e.fields[F('LogEntry', 'index')] = Int(z3.simplify(self.base + U64(i + 1)), False)
            ents.append(e)
            self.log0.append(t.v)
        for a, b in zip(self.log0, self.log0[1:]):
            st.assume(z3.ULE(a, b))
        if self.log0:
            st.assume(z3.ULE(self.log0[-1], self.term0.v))
        P_.fields[F('PersistentState', 'log')] = Seq('LogEntry', ents)
        P_.fields[F('PersistentState', 'log_base_index')] = Int(self.base, False)
        V = self.volatile(st)
        self.commit0 = V.load(F('VolatileState', 'commit_index'), 'u64', st)
        st.assume(z3.ULE(self.commit0.v, z3.simplify(self.base + U64(loglen))))
        L = self.leadership(st)
        self.role0 = L.load(F('LeadershipState', 'role'), 'raft::RaftState', st)
        self.id = self.node.load(F('RaftNode', 'node_id'), 'std::string::String', st)
        self.loglen0 = loglen

    def persistent(self, st):
        n = st.roots['node']
        return n.load(F('RaftNode', 'persistent'), T_PERSIST, st).fields['data'].load(0, None, st)

    def volatile(self, st):
        n = st.roots['node']
        return n.load(F('RaftNode', 'volatile'), T_VOLATILE, st).fields['data'].load(0, None, st)

    def leadership(self, st):
        n = st.roots['node']
        return n.load(F('RaftNode', 'leadership'), T_LEADERSHIP, st).fields['data'].load(0, None, st)

    # post-state readers (st = final state of a path)
    def term(self, st):
        return self.persistent(st).load(F('PersistentState', 'current_term'), 'u64', st).v

    def vote(self, st):
        return self.persistent(st).load(F('PersistentState', 'voted_for'), None, st)

    def log(self, st):
        s = self.persistent(st).load(F('PersistentState', 'log'), None, st)
        return [(e.load(F('LogEntry', 'term'), 'u64', st).v, e.load(F('LogEntry', 'index'), 'u64', st).v) for e in s.items(st)]

    def commit(self, st):
        return self.volatile(st).load(F('VolatileState', 'commit_index'), 'u64', st).v

    def role(self, st):
        r = self.leadership(st).load(F('LeadershipState', 'role'), 'raft::RaftState', st)
        return r.disc if not isinstance(r.disc, int) else z3.BitVecVal(r.disc, 64)


ROLE = {n: P.variant_index('RaftState', n) for n in ('Follower', 'Candidate', 'Leader')}


def disc(e):
    return e.disc if not isinstance(e.disc, int) else z3.BitVecVal(e.disc, 64)


def opt_str_eq(e, s, st):
    """Option<String> e == Some(s)"""
    d = disc(e)
    if isinstance(e.disc, int) and e.disc == 0:
        return z3.BoolVal(False)
    pv = e.load(('Some', 0), 'std::string::String', st)
    return z3.And(d == 1, pv.id == s.id)


def run(st, fname, args):
    st.frames = []
    ex.call(st, fname, args)
    return ex.run(st)


def response(r, variant):
    """payload struct of Some(Message::<variant>(payload)) returned by a handler"""
    rv = r.retval
    if not isinstance(rv, Enum) or rv.variant != 'Some':
        return None
    msg = rv.fields[('Some', 0)]
    if msg.variant != variant:
        return None
    return msg.fields[(variant, 0)]


def pre_dump(m, n, st):
    return {'term': mval(m, n.term0.v), 'voted_for': (None if mval(m, n.vote0_disc) == 0 else mval(m, n.vote0_some.id)),
            'log_terms': [mval(m, t) for t in n.log0], 'commit_index': mval(m, n.commit0.v), 'role': mval(m, disc(n.role0)),
            'node_id': mval(m, n.id.id)}


