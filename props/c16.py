"""C16 — the chain is tamper-evident: the link/validation logic of Chain::{append, verify_chain, get_block_at} and
Block::verify_chain only.  Hashes, Merkle roots and signatures are opaque per block (what the cryptography guarantees is an
assumption, stated below); the store behind the graph engine is its key/value contract.  Atomic/concurrent commit of
workspaces and replica determinism are NOT decided."""
import sys
import os
import itertools
sys.path.insert(0, os.path.dirname(os.path.dirname(os.path.abspath(__file__))))
from props.common import *
from mirsym.models import some, none, ok as _ok, err as _err, deref
from mirsym.models_iter import map_find, map_insert

ck = Check('C16')
T = ck.tier
ex = ck.executor('tensor_chain', unroll=80, default_maxlen=1, max_paths=100000)
P = ex.prog
F = P.field
NB = 2 if T == 'quick' else 3
ck.bounds = {'append': 'chain height any u64 < 2^62, tip hash any 32 bytes, candidate block with symbolic height / prev_hash / tx_root / signature length 0..1 / 0..1 transactions; registry present or absent',
             'verify_chain': f'stored chains of 1..{NB} blocks above genesis with symbolic heights, prev_hash, timestamps; each block\'s hash, Merkle root and signature verdict symbolic; '
                             'one block optionally missing'}
ck.assumptions = [
    'BlockHeader::hash / Block::hash: 32 symbolic bytes per block (no relation between the hashes of different blocks is assumed, so equal and different hashes are both explored)',
    'Block::compute_tx_root: 32 symbolic bytes per block; BlockHeader::verify_signature: Ok or Err per block (symbolic) when a registry is configured',
    'what makes this tamper-evidence is cryptographic and NOT checked here: a changed block has a different hash / Merkle root and its signature no longer verifies',
    'the store behind GraphEngine is its key/value contract (get/put on a finite map); bitcode as image table; Chain::add_chain_edge succeeds; hex::encode opaque',
    'NOT decided: TensorChain::commit (workspace atomicity, store snapshot/restore), concurrent commits, state roots, replica determinism, Chain::initialize',
]
U64 = lambda v: z3.BitVecVal(v, 64)


# ------------------------------------------------------------------ environment
def kv_of(st):
    return st.roots['store'].fields['kv']


def m_store_get(c):
    m = kv_of(c.st)
    i = map_find(c.st, m, c.args[1], 'store.get')
    if i is None:
        return _err(Opaque('TensorStoreError::NotFound'), 'Result<TensorData, TensorStoreError>')
    return _ok(m.vals[i], 'Result<TensorData, TensorStoreError>')


def m_store_put(c):
    m = kv_of(c.st)
    key = deref(c.st, c.args[1])
    i = map_find(c.st, m, key, 'store.put')
    if i is None:
        m.keys.append(key)
        m.vals.append(c.args[2])
    else:
        m.vals[i] = c.args[2]
    c.st.notes.append(('store_put', key))
    return _ok(UNIT, 'Result<(), TensorStoreError>')


def m_td_new(c):
    return Struct('TensorData', {'f': Map('std::string::String', 'TensorValue', [], [])})


def m_td_set(c):
    td = deref(c.st, c.args[0])
    map_insert(c.st, td.fields['f'], deref(c.st, c.args[1]), c.args[2])
    return UNIT


def m_td_get(c):
    from mirsym.exec import TypedPtr
    td = deref(c.st, c.args[0])
    m = td.fields['f']
    i = map_find(c.st, m, c.args[1], 'tensor.get')
    if i is None:
        return none('Option<&TensorValue>')
    return some(TypedPtr(m, i, 'TensorValue'), 'Option<&TensorValue>')


def block_name(b):
    return getattr(b, 'lazy', None) or 'anon'


def per_block(st, kind, b):
    """32 symbolic bytes attached to block object b (kind: 'hash' | 'txroot')"""
    tab = st.env.setdefault(kind, {})
    n = block_name(b)
    if n not in tab:
        tab[n] = [z3.BitVec(f'{kind}.{n}.{i}', 8) for i in range(32)]
    return tab[n]


def owner_block(c):
    """the Block a header method was called on: headers are reached through their block in every call site used here"""
    v = deref(c.st, c.args[0])
    return v


def m_block_hash(c):
    b = deref(c.st, c.args[0])
    return Seq('u8', [Int(x, False) for x in per_block(c.st, 'hash', b)])


def m_header_hash(c):
    h = deref(c.st, c.args[0])
    return Seq('u8', [Int(x, False) for x in per_block(c.st, 'hash', h)])


def m_tx_root(c):
    b = deref(c.st, c.args[0])
    return Seq('u8', [Int(x, False) for x in per_block(c.st, 'txroot', b)])


def m_verify_sig(c):
    h = deref(c.st, c.args[0])
    tab = c.st.env.setdefault('sig', {})
    n = block_name(h)
    if n not in tab:
        tab[n] = z3.Bool(f'sig_ok.{n}')
    c.st.notes.append(('sig_checked', n))
    if c.st.branch(tab[n], 'signature'):
        return _ok(UNIT, 'Result<(), ChainError>')
    return _err(Opaque('ChainError::ValidationFailed'), 'Result<(), ChainError>')


ex.extra_models.update({
    'TensorStore::get': m_store_get, 'TensorStore::put': m_store_put,
    'TensorData::new': m_td_new, 'TensorData::set': m_td_set, 'TensorData::get': m_td_get,
    'GraphEngine::store': lambda c: ref(c.st.roots['store']),
    'Block::hash': m_block_hash, 'BlockHeader::hash': m_header_hash, 'Block::compute_tx_root': m_tx_root,
    'BlockHeader::verify_signature': m_verify_sig,
    'Chain::add_chain_edge': lambda c: _ok(Int(U64(0), False), 'Result<u64, ChainError>'),
    'hex::encode': lambda c: Str(z3.BitVec(c.st.fresh_name('hex'), 64)), 'encode': lambda c: Str(z3.BitVec(c.st.fresh_name('hex'), 64)),
})


def sym32(name):
    return [z3.BitVec(f'{name}.{i}', 8) for i in range(32)]


def mk_block(st, name, height, prev, ts=None, siglen=None, ntx=None):
    """block object `name`; header carries the same name so that per-block hash/signature stubs find it"""
    sl = siglen if siglen is not None else 0
    hdr = Struct('BlockHeader', {F('BlockHeader', 'height'): Int(height, False), F('BlockHeader', 'prev_hash'): Seq('u8', [Int(x, False) for x in prev]),
                                 F('BlockHeader', 'tx_root'): Seq('u8', [Int(x, False) for x in sym32(name + '.txr')]),
                                 F('BlockHeader', 'timestamp'): Int(ts if ts is not None else z3.BitVec(name + '.ts', 64), False),
                                 F('BlockHeader', 'signature'): Seq('u8', [Int(z3.BitVec(f'{name}.sig{i}', 8), False) for i in range(sl)])}, lazy=name)
    txs = [Struct('Transaction', {}, lazy=f'{name}.tx{i}') for i in range(ntx or 0)]
    return Struct('Block', {F('Block', 'header'): hdr, F('Block', 'transactions'): Seq('Transaction', txs)}, lazy=name)


def mk_chain(st, height, tip, registry):
    st.roots['store'] = Struct('TensorStore', {'kv': Map('std::string::String', 'TensorData', [], [])})
    ch = Struct('Chain', {F('Chain', 'height'): Struct('AtomicU64', {'data': Cell(val=Int(height, False))}),
                          F('Chain', 'tip_hash'): Struct('RwLock', {'data': Cell(val=Seq('u8', [Int(x, False) for x in tip]))}),
                          F('Chain', 'append_lock'): Struct('Mutex', {'data': Cell(val=UNIT)}),
                          F('Chain', 'validator_registry'): (some(Ptr(Cell(val=Struct('ValidatorRegistry', {}, lazy='REG')), 0), 'Option<Arc<ValidatorRegistry>>') if registry
                                                             else none('Option<Arc<ValidatorRegistry>>'))}, lazy='CH')
    st.roots['chain'] = ch
    return ch


def block_key_str(h):
    return f'chain:block:{h}'


def put_block(st, h, blk):
    """store image of blk under the key the chain uses for height h (concrete h)"""
    tab = st.env.setdefault('codec', [])
    idx = len(tab)
    bs = [Int(z3.BitVec(f'img{idx}_{i}', 8), False) for i in range(2)]
    tab.append((bs, blk))
    td = Struct('TensorData', {'f': Map('std::string::String', 'TensorValue', [Str(text='_block')],
                                        [Enum('TensorValue', P.variant_index('TensorValue', 'Scalar'), {('Scalar', 0): Enum('ScalarValue', P.variant_index('ScalarValue', 'Bytes'),
                                                                                                                        {('Bytes', 0): Seq('u8', list(bs))}, variant='Bytes')}, variant='Scalar')])})
    kv = kv_of(st)
    kv.keys.append(st.env['block_keys'][h])
    kv.vals.append(td)


def run(st, fname, args):
    st.frames = []
    ex.call(st, fname, args)
    return ex.run(st)


def eq32(a, b):
    return z3.And([x == y for x, y in zip(a, b)])


# the key the code builds for a height: execute block_key once per concrete height
def key_for(st, h):
    rs = run(st.clone(), 'block_key', [Int(U64(h), False)])
    g = [r for r in rs if r.status == 'return']
    if len(g) != 1:
        raise RuntimeError('block_key: ' + str([(r.status, r.msg) for r in rs]))
    return g[0].retval


# ------------------------------------------------------------------ B1 append
ck.declare('B1_append_validates_and_links', 'append(block) from an arbitrary chain state; registry on/off',
           'Ok => block.height = height+1, prev_hash = tip, tx_root equals the Merkle root of its transactions (filled in when zero and non-empty), above height 1 it is signed and, with a registry, '
           'the signature verified; afterwards height+1, tip = hash(block), the block is stored under its height key.  Err => height, tip and store are unchanged')
acc = rej = 0
for registry in (False, True):
    for siglen in (0, 1):
        for ntx in (0, 1):
            st = ex.new_state()
            h0 = z3.BitVec('h0', 64)
            st.assume(z3.ULT(h0, U64(1 << 62)))
            tip = sym32('tip')
            mk_chain(st, h0, tip, registry)
            bh = z3.BitVec('bh', 64)
            prev = sym32('bprev')
            blk = mk_block(st, 'B', bh, prev, siglen=siglen, ntx=ntx)
            st.roots['blk'] = blk
            txr0 = [x.v for x in blk.fields[F('Block', 'header')].fields[F('BlockHeader', 'tx_root')].elems]
            res = run(st, 'Chain::append', [ref(st.roots['chain']), blk])
            ck.note_path_problem(res, f'append registry={registry} siglen={siglen} ntx={ntx}')
            for r in res:
                def wit(m, r=r, registry=registry, siglen=siglen, ntx=ntx):
                    tr_ = per_block(r.st, 'txroot', blk)
                    sg_ = r.st.env.get('sig', {}).get('B')
                    return {'chain_op': 'append', 'height': mval(m, h0), 'block_height': mval(m, bh), 'registry': registry, 'signed': siglen > 0, 'ntx': ntx,
                            'height_ok': mval(m, bh) == (mval(m, h0) + 1) % (1 << 64), 'prev_matches_tip': all(mval(m, a) == mval(m, b) for a, b in zip(prev, tip)),
                            'root_zero': all(mval(m, x) == 0 for x in txr0), 'root_matches': all(mval(m, a) == mval(m, b) for a, b in zip(txr0, tr_)),
                            'sig_ok': bool(mval(m, sg_)) if sg_ is not None else True}
                if r.status == 'panic':
                    ck.require(ex, 'B1_append_validates_and_links', r.pc, None, z3.BoolVal(False), wit, lambda m, w: 'append-panic')
                    continue
                if r.status != 'return':
                    continue
                f = r.st
                ch = f.roots['chain']
                h1 = ch.fields[F('Chain', 'height')].fields['data'].val.v
                tip1 = [x.v for x in ch.fields[F('Chain', 'tip_hash')].fields['data'].val.items(f)]
                kv = kv_of(f)
                if r.retval.variant == 'Ok':
                    acc += 1
                    hb = per_block(f, 'hash', blk)
                    tr = per_block(f, 'txroot', blk)
                    zero_root = z3.And([x == 0 for x in txr0])
                    root_ok = z3.If(z3.And(zero_root, z3.BoolVal(ntx > 0)), z3.BoolVal(True), eq32(txr0, tr))
                    sig = f.env.get('sig', {}).get('B')
                    checked = any(x[0] == 'sig_checked' for x in f.notes)
                    cs = [bh == h0 + 1, eq32(prev, tip), root_ok, h1 == h0 + 1, eq32(tip1, hb),
                          z3.Implies(z3.UGT(h0 + 1, U64(1)), z3.BoolVal(siglen > 0)),
                          z3.Implies(z3.And(z3.UGT(h0 + 1, U64(1)), z3.BoolVal(registry)), z3.And(z3.BoolVal(checked), sig if sig is not None else z3.BoolVal(False))),
                          z3.BoolVal(len(kv.keys) >= 1)]
                    ck.require(ex, 'B1_append_validates_and_links', r.pc, None, z3.And(cs), wit, lambda m, w: 'append-accepted', prefer=z3.ULE(h0, U64(2)))
                else:
                    rej += 1
                    cs = [h1 == h0, eq32(tip1, tip), z3.BoolVal(len(kv.keys) == 0)]
                    ck.require(ex, 'B1_append_validates_and_links', r.pc, None, z3.And(cs), wit, lambda m, w: 'append-rejected-changed-state', prefer=z3.ULE(h0, U64(2)))
if acc == 0 or rej == 0:
    ck.inconclusive.append(f'vacuous: append accepted on {acc} paths, rejected on {rej}')

# ------------------------------------------------------------------ B2 verify_chain
ck.declare('B2_verify_checks_every_link', f'verify_chain on stored chains of 1..{NB} blocks above genesis; registry on/off; any one block missing',
           'Ok exactly when every block 1..height is present, its height follows its predecessor\'s, its prev_hash equals the predecessor\'s hash, its Merkle root matches, '
           'its timestamp is not earlier, and (with a registry) its signature verifies')
vok = vbad = 0
for registry in (False, True):
    for n in range(1, NB + 1):
        for missing in [None] + list(range(0, n + 1)):
            st = ex.new_state()
            mk_chain(st, U64(n), sym32('tip'), registry)
            keys = {}
            for h in range(0, n + 1):
                keys[h] = key_for(st, h)
            st.env['block_keys'] = keys
            blocks = []
            for h in range(0, n + 1):
                b = mk_block(st, f'b{h}', z3.BitVec(f'b{h}.height', 64), sym32(f'b{h}.prev'))
                blocks.append(b)
                if h != missing:
                    put_block(st, h, b)
            for b in blocks:
                st.assume(z3.ULT(b.fields[F('Block', 'header')].fields[F('BlockHeader', 'height')].v, U64(1 << 62)))
            res = run(st, 'Chain::verify_chain', [ref(st.roots['chain'])])
            ck.note_path_problem(res, f'verify_chain n={n} registry={registry} missing={missing}')
            for r in res:
                def wit(m, r=r, n=n, registry=registry, missing=missing, blocks=blocks):
                    ls = []
                    for h in range(1, n + 1):
                        bh_, bp = blocks[h].fields[F('Block', 'header')], blocks[h - 1].fields[F('Block', 'header')]
                        ev = lambda e: mval(m, e)
                        prevb = [x.v for x in bh_.fields[F('BlockHeader', 'prev_hash')].elems]
                        txr = [x.v for x in bh_.fields[F('BlockHeader', 'tx_root')].elems]
                        sg_ = r.st.env.get('sig', {}).get(f'b{h}')
                        ls.append({'height_ok': ev(bh_.fields[F('BlockHeader', 'height')].v) == (ev(bp.fields[F('BlockHeader', 'height')].v) + 1) % (1 << 64),
                                   'prev_ok': all(ev(a) == ev(b) for a, b in zip(prevb, per_block(r.st, 'hash', blocks[h - 1]))),
                                   'root_ok': all(ev(a) == ev(b) for a, b in zip(txr, per_block(r.st, 'txroot', blocks[h]))),
                                   'ts_ok': ev(bh_.fields[F('BlockHeader', 'timestamp')].v) >= ev(bp.fields[F('BlockHeader', 'timestamp')].v),
                                   'ts_behind': max(0, ev(bp.fields[F('BlockHeader', 'timestamp')].v) - ev(bh_.fields[F('BlockHeader', 'timestamp')].v)),
                                   'sig_ok': bool(ev(sg_)) if sg_ is not None else True})
                    return {'chain_op': 'verify_chain', 'blocks': n, 'registry': registry, 'missing': missing, 'links': ls}
                if r.status == 'panic':
                    ck.require(ex, 'B2_verify_checks_every_link', r.pc, None, z3.BoolVal(False), wit, lambda m, w: 'verify-panic')
                    continue
                if r.status != 'return':
                    continue
                f = r.st
                links = []
                for h in range(1, n + 1):
                    bh_, bp = blocks[h].fields[F('Block', 'header')], blocks[h - 1].fields[F('Block', 'header')]
                    hh, hp = bh_.fields[F('BlockHeader', 'height')].v, bp.fields[F('BlockHeader', 'height')].v
                    prevb = [x.v for x in bh_.fields[F('BlockHeader', 'prev_hash')].elems]
                    txr = [x.v for x in bh_.fields[F('BlockHeader', 'tx_root')].elems]
                    tsb, tsp = bh_.fields[F('BlockHeader', 'timestamp')].v, bp.fields[F('BlockHeader', 'timestamp')].v
                    c_ = [hh == hp + 1, eq32(prevb, per_block(f, 'hash', blocks[h - 1])), eq32(txr, per_block(f, 'txroot', blocks[h])), z3.UGE(tsb, tsp)]
                    if registry:
                        sg = f.env.setdefault('sig', {}).setdefault(f'b{h}', z3.Bool(f'sig_ok.b{h}'))
                        c_.append(sg)
                    links.append(z3.And(c_))
                all_ok = z3.And(links) if missing is None else z3.BoolVal(False)
                if r.retval.variant == 'Ok':
                    vok += 1
                    ck.require(ex, 'B2_verify_checks_every_link', r.pc, None, all_ok, wit, lambda m, w: 'verify-accepts-broken-chain')
                else:
                    vbad += 1
                    ck.require(ex, 'B2_verify_checks_every_link', r.pc, None, z3.Not(all_ok), wit, lambda m, w: 'verify-rejects-valid-chain')
if vok == 0 or vbad == 0:
    ck.inconclusive.append(f'vacuous: verify_chain accepted on {vok} paths, rejected on {vbad}')

# ------------------------------------------------------------------ B3 the Merkle root binds the transaction list
NL = 6 if T == 'quick' else 8
SHA = z3.Function('sha256_of_64_bytes', z3.BitVecSort(512), z3.BitVecSort(256))


def bv256(seq, st):
    return z3.Concat([x.v for x in seq.items(st)])


def m_sha_new(c):
    return Struct('Sha256', {'absorbed': Seq('u8', [])})


def m_sha_update(c):
    h = deref(c.st, c.args[0])
    data = deref(c.st, c.args[1])
    h.fields['absorbed'] = Seq('u8', list(h.fields['absorbed'].items(c.st)) + list(data.items(c.st)))
    return UNIT


def m_sha_finalize(c):
    h = deref(c.st, c.args[0])
    bs = list(h.fields['absorbed'].items(c.st))
    if len(bs) != 64:
        raise Unsupported(f'sha256 of {len(bs)} bytes (only the 64-byte node hash is modelled)')
    x = z3.Concat([b.v for b in bs])
    apps = c.st.env.setdefault('sha_apps', [])
    for y in apps:      # collision-free on the applications of this run
        c.st.assume(z3.Implies(SHA(x) == SHA(y), x == y))
    apps.append(x)
    out = SHA(x)
    return Seq('u8', [Int(z3.Extract(255 - 8 * i, 248 - 8 * i, out), False) for i in range(32)])


ex.extra_models.update({
    '<CoreWrapper as Digest>::new': m_sha_new, '<CoreWrapper as Digest>::update': m_sha_update, '<CoreWrapper as Digest>::finalize': m_sha_finalize,
    '<GenericArray as Into<[u8; 32]>>::into': lambda c: c.args[0], '<GenericArray as Into>::into': lambda c: c.args[0],
})
ck.declare('B3_tx_root_binds_the_transaction_list', f'merkle_root on two lists of 1..{NL} leaf digests (each 256 symbolic bits)',
           'equal roots => the two lists are the same list (same length, same leaves in the same order): otherwise a stored block whose transaction list was altered still matches '
           'the signed tx_root and passes verify_chain')
ck.assumptions += ['B3: SHA-256 on 64-byte node inputs is an uninterpreted function that is collision-free on the applications of one run; a leaf digest is never the digest of a '
                   '64-byte node input and never all-zero (second-preimage resistance); Transaction::hash itself is not executed (leaves are arbitrary digests)']
mroots = 0
for n1 in range(1, NL + 1):
    for n2 in range(n1, NL + 1):
        st = ex.new_state()
        L1 = [z3.BitVec(f'la{i}', 256) for i in range(n1)]
        L2 = [z3.BitVec(f'lb{i}', 256) for i in range(n2)]
        mk = lambda L: Seq('[u8; 32]', [Seq('u8', [Int(z3.Extract(255 - 8 * i, 248 - 8 * i, v), False) for i in range(32)]) for v in L])
        r1 = [r for r in run(st, 'merkle_root', [ref(mk(L1))])]
        ck.note_path_problem(r1, f'merkle_root n={n1}')
        for a in r1:
            if a.status != 'return':
                continue
            root1 = bv256(a.retval, a.st)
            r2 = run(a.st, 'merkle_root', [ref(mk(L2))])
            ck.note_path_problem(r2, f'merkle_root n={n2}')
            for b in r2:
                if b.status != 'return':
                    continue
                mroots += 1
                root2 = bv256(b.retval, b.st)
                f = b.st
                pre = [z3.Implies(SHA(x) == SHA(y), x == y) for x, y in itertools.combinations(f.env.get('sha_apps', []), 2)]
                pre += [lf != SHA(x) for lf in L1 + L2 for x in f.env.get('sha_apps', [])]
                same = z3.And([z3.BoolVal(n1 == n2)] + [x == y for x, y in zip(L1, L2)])
                def wit(m, n1=n1, n2=n2, L1=L1, L2=L2):
                    vals = {}
                    idx = lambda v: vals.setdefault(mval(m, v), len(vals))
                    return {'chain_op': 'merkle', 'list1': [idx(v) for v in L1], 'list2': [idx(v) for v in L2]}
                ck.require(ex, 'B3_tx_root_binds_the_transaction_list', b.pc + pre, None, z3.Implies(root1 == root2, same), wit,
                           lambda m, w: 'merkle-duplicated-tail' if len(w['list2']) > len(w['list1']) and w['list2'][:len(w['list1'])] == w['list1'] else 'merkle-collision')
if mroots == 0:
    ck.inconclusive.append('vacuous: merkle_root never returned')

# ------------------------------------------------------------------ B4 a commit is one critical section
# TensorChain::commit executed with its collaborators stubbed (workspace bookkeeping, conflict detection, applying the writes,
# state root, block building, Chain::append each succeed or fail symbolically and record when they ran); the store snapshot and
# its restore are opaque.  Decided: the pre-image is taken, the writes are applied, the block is built and appended - or the
# pre-image is restored - under ONE hold of a commit-wide lock, so that no other commit can run in between (a restore would
# wipe it, or this block's state root would include its writes).
ck.declare('B4_commit_is_one_critical_section', 'TensorChain::commit with 1 operation, auto-merge off; applying the writes, the state root and Chain::append each succeed or fail',
           'on every path that takes a pre-image: a commit-wide lock is acquired before the pre-image and released only after the block was appended or the pre-image restored; '
           'Ok => appended, nothing restored; Err after the pre-image => restored')


def note(kind, ret):
    def f(c):
        held = [n for n, lk in c.st.env.get('commit_locks', {}).items() if getattr(lk, 'held', [])]
        c.st.notes.append((kind, tuple(held)))
        return ret(c) if callable(ret) else ret
    return f


def sym_result(name, okv, ty):
    def f(c):
        if c.st.branch(z3.Bool(name + '_ok'), name):
            return _ok(okv(c) if callable(okv) else okv, ty)
        return _err(Opaque('ChainError'), ty)
    return f


def m_any_mutex_lock(c):
    # every Mutex / RwLock taken during commit is tracked by the field path it was reached through
    from mirsym.models_std import m_lock_w
    lk = deref(c.st, c.args[0])
    name = getattr(lk, 'lazy', None) or str(id(lk))
    c.st.env.setdefault('commit_locks', {})[name] = lk
    c.st.notes.append(('lock', name))
    return m_lock_w(c)


b4_saved = dict(ex.extra_models)
PREIMG = Seq('u8', [])
PREIMG.lazy = 'PREIMAGE'         # identity of the image taken by snapshot_bytes in this commit
ex.extra_models.update({
    'TransactionWorkspace::mark_committing': lambda c: _ok(UNIT, 'Result<(), ChainError>'),
    'TransactionWorkspace::operations': lambda c: Seq('Transaction', [Struct('Transaction', {}, lazy='op0')]),
    'TransactionWorkspace::mark_committed': lambda c: UNIT, 'TransactionWorkspace::id': lambda c: Int(U64(7), False),
    'TransactionManager::remove': lambda c: UNIT, 'TensorChain::fail_workspace': note('fail_workspace', UNIT),
    'TensorChain::detect_conflicts': lambda c: _ok(UNIT, 'Result<(), ChainError>'),
    'TransactionWorkspace::to_delta_vector': lambda c: Opaque('DeltaVector'), 'TransactionWorkspace::delta_embedding': lambda c: Seq('f32', []),
    'TensorStore::snapshot_bytes': note('snapshot', lambda c: _ok(PREIMG, 'Result<Vec<u8>, SnapshotError>')),
    'TensorStore::restore_from_bytes': lambda c: (c.st.notes.append(('restore', tuple(n for n, lk in c.st.env.get('commit_locks', {}).items() if getattr(lk, 'held', [])),
                                                                   getattr(deref(c.st, c.args[1]) if isinstance(c.args[1], Ptr) else c.args[1], 'lazy', None) == 'PREIMAGE')),
                                                   _ok(UNIT, 'Result<(), SnapshotError>'))[1],
    'TransactionWorkspace::checkpoint_bytes': lambda c: Seq('u8', []),
    'TensorChain::apply_operations_to_store': note('apply', sym_result('apply', UNIT, 'Result<(), ChainError>')),
    'compute_state_root': note('state_root', sym_result('root', lambda c: Seq('u8', [Int(z3.BitVecVal(0, 8), False)] * 32), 'Result<[u8; 32], ChainError>')),
    'state_root::compute_state_root': note('state_root', sym_result('root', lambda c: Seq('u8', [Int(z3.BitVecVal(0, 8), False)] * 32), 'Result<[u8; 32], ChainError>')),
    'Chain::new_block': note('new_block', lambda c: Opaque('BlockBuilder')), 'chain::Chain::new_block': note('new_block', lambda c: Opaque('BlockBuilder')),
    'BlockBuilder::add_transactions': lambda c: Opaque('BlockBuilder'), 'BlockBuilder::with_dense_embedding': lambda c: Opaque('BlockBuilder'),
    'BlockBuilder::with_codes': lambda c: Opaque('BlockBuilder'), 'BlockBuilder::with_state_root': lambda c: Opaque('BlockBuilder'),
    'BlockBuilder::sign_and_build': lambda c: Opaque('Block'),
    'Chain::append': note('append', sym_result('append', lambda c: Seq('u8', [Int(z3.BitVecVal(1, 8), False)] * 32), 'Result<[u8; 32], ChainError>')),
    'chain::Chain::append': note('append', sym_result('append', lambda c: Seq('u8', [Int(z3.BitVecVal(1, 8), False)] * 32), 'Result<[u8; 32], ChainError>')),
    'Chain::tip_hash': lambda c: Seq('u8', [Int(z3.BitVecVal(2, 8), False)] * 32), 'chain::Chain::tip_hash': lambda c: Seq('u8', [Int(z3.BitVecVal(2, 8), False)] * 32),
    'Mutex::lock': m_any_mutex_lock, 'RwLock::write': m_any_mutex_lock,
})
committed_paths = 0
st = ex.new_state()
st.roots['store'] = Struct('TensorStore', {'kv': Map('std::string::String', 'TensorData', [], [])})
tc = Struct('TensorChain', {}, lazy='TC')
cfg = tc.load(F('TensorChain', 'config'), 'ChainConfig', st)
cfg.fields[F('ChainConfig', 'max_txs_per_block')] = Int(U64(100), False)
am = Struct('AutoMergeConfig', {F('AutoMergeConfig', 'enabled'): z3.BoolVal(False)}, lazy='AM')
cfg.fields[F('ChainConfig', 'auto_merge')] = am
ws = Ptr(Cell(val=Struct('TransactionWorkspace', {}, lazy='WS')), 0)
res = run(st, 'TensorChain::commit', [ref(tc), ref(ws)])
ck.note_path_problem(res, 'TensorChain::commit')
for r in res:
    wit = lambda m: {'chain_op': 'commit_race'}
    if r.status == 'panic':
        ck.require(ex, 'B4_commit_is_one_critical_section', r.pc, None, z3.BoolVal(False), wit, lambda m, w: 'commit-panic')
        continue
    if r.status != 'return':
        continue
    ev = [x for x in r.st.notes if x[0] in ('snapshot', 'apply', 'state_root', 'new_block', 'append', 'restore', 'lock')]
    kinds = [x[0] for x in ev]
    if 'apply' not in kinds and 'snapshot' not in kinds:
        continue
    committed_paths += 1
    crit = [x for x in ev if x[0] in ('snapshot', 'apply', 'state_root', 'new_block', 'append', 'restore')]
    # one lock held at every critical step, the same one, acquired once before the first of them
    common = set(crit[0][1])
    for x in crit[1:]:
        common &= set(x[1])
    first_crit = min(i for i, k_ in enumerate(kinds) if k_ != 'lock')
    one_hold = bool(common) and any([e for e in ev[:first_crit] if e[0] == 'lock' and e[1] == n] and len([e for e in ev if e[0] == 'lock' and e[1] == n]) == 1 for n in common)
    # what is restored on failure is the image taken from the store inside this critical section, nothing older
    own_image = 'snapshot' in kinds and kinds.index('snapshot') < kinds.index('apply') if 'apply' in kinds else 'snapshot' in kinds
    own_image = own_image and all(x[2] for x in ev if x[0] == 'restore')
    is_ok = r.retval.variant == 'Ok'
    outcome = ('append' in kinds and 'restore' not in kinds) if is_ok else ('restore' in kinds)
    if not own_image:
        ck.require(ex, 'B4_commit_is_one_critical_section', r.pc, None, z3.BoolVal(False), lambda m: {'chain_op': 'commit_refused'}, lambda m, w: 'commit-restores-foreign-pre-image')
        continue
    ck.require(ex, 'B4_commit_is_one_critical_section', r.pc, None, z3.BoolVal(bool(one_hold and outcome)), wit, lambda m, w: 'commit-not-atomic')
ex.extra_models.clear()
ex.extra_models.update(b4_saved)

# ------------------------------------------------------------------ B5 a replica accepts a block only with a matching state root
ck.declare('B5_replica_checks_the_state_root', 'TensorStateMachine::apply_block and apply_entry with 1 transaction; the recomputed root, the header root, the fast-path decision and Chain::append symbolic',
           'Ok => the root recomputed after applying the transactions equals the header\'s state_root, the block was appended and nothing was restored; '
           'a mismatching root or a refused append => Err and the pre-image restored')
b5_saved = dict(ex.extra_models)
ROOTC = [z3.BitVec(f'computed_root.{i}', 8) for i in range(32)]
ex.extra_models.update({
    'TensorStore::snapshot_bytes': note('snapshot', lambda c: _ok(Seq('u8', []), 'Result<Vec<u8>, SnapshotError>')),
    'TensorStore::restore_from_bytes': note('restore', lambda c: _ok(UNIT, 'Result<(), SnapshotError>')),
    'TensorStateMachine::apply_transaction': note('apply', lambda c: _ok(UNIT, 'Result<(), ChainError>')),
    'compute_state_root': note('state_root', lambda c: _ok(Seq('u8', [Int(x, False) for x in ROOTC]), 'Result<[u8; 32], ChainError>')),
    'state_root::compute_state_root': note('state_root', lambda c: _ok(Seq('u8', [Int(x, False) for x in ROOTC]), 'Result<[u8; 32], ChainError>')),
    'TensorStateMachine::can_fast_path': lambda c: z3.Bool('fast_path'),
    # append_fast / append_full run from MIR (a change may move checks into them); the chain's own append is the stub
    'Chain::append': note('append', sym_result('append', lambda c: Seq('u8', [Int(z3.BitVecVal(1, 8), False)] * 32), 'Result<[u8; 32], ChainError>')),
    'chain::Chain::append': note('append', sym_result('append', lambda c: Seq('u8', [Int(z3.BitVecVal(1, 8), False)] * 32), 'Result<[u8; 32], ChainError>')),
    'TensorStateMachine::track_embedding': lambda c: UNIT, 'TensorStateMachine::apply_config_change': lambda c: UNIT,
    '<Block as Clone>::clone': lambda c: deref(c.st, c.args[0]),
})
replica_paths = 0
for entry in ('apply_block', 'apply_entry'):
    st = ex.new_state()
    st.roots['store'] = Struct('TensorStore', {'kv': Map('std::string::String', 'TensorData', [], [])})
    hroot = sym32('header_root')
    hdr = Struct('BlockHeader', {F('BlockHeader', 'state_root'): Seq('u8', [Int(x, False) for x in hroot])}, lazy='RB')
    blk = Struct('Block', {F('Block', 'header'): hdr, F('Block', 'transactions'): Seq('Transaction', [Struct('Transaction', {}, lazy='rtx0')])}, lazy='RB')
    sm = Struct('TensorStateMachine', {}, lazy='SM')
    if entry == 'apply_block':
        args = [ref(sm), ref(blk)]
    else:
        le = Struct('LogEntry', {F('LogEntry', 'block'): blk, F('LogEntry', 'config_change'): none('Option<ConfigChange>')}, lazy='LE')
        args = [ref(sm), ref(le)]
    res = run(st, 'TensorStateMachine::' + entry, args)
    ck.note_path_problem(res, entry)
    for r in res:
        wit = lambda m, entry=entry: {'chain_op': 'replica_apply', 'entry': entry, 'root_matches': all(mval(m, a) == mval(m, b) for a, b in zip(hroot, ROOTC)),
                                      'differs_at': [i for i, (a, b) in enumerate(zip(hroot, ROOTC)) if mval(m, a) != mval(m, b)][:4],
                                      'append_ok': bool(mval(m, z3.Bool('append_ok'))), 'fast_path': bool(mval(m, z3.Bool('fast_path')))}
        if r.status == 'panic':
            ck.require(ex, 'B5_replica_checks_the_state_root', r.pc, None, z3.BoolVal(False), wit, lambda m, w: 'replica-panic')
            continue
        if r.status != 'return':
            continue
        kinds = [x[0] for x in r.st.notes if x[0] in ('snapshot', 'apply', 'state_root', 'append', 'restore')]
        if 'apply' not in kinds:
            continue
        replica_paths += 1
        if r.retval.variant == 'Ok' and 'state_root' not in kinds:
            ck.require(ex, 'B5_replica_checks_the_state_root', r.pc, None, z3.BoolVal(False), lambda m, entry=entry: {'chain_op': 'replica_apply', 'entry': entry, 'root_matches': False, 'differs_at': [0], 'append_ok': True, 'fast_path': bool(mval(m, z3.Bool('fast_path')))},
                       lambda m, w: 'replica-accepts-without-recomputing-the-root')
            continue
        same = eq32(hroot, ROOTC)
        if r.retval.variant == 'Ok':
            ck.require(ex, 'B5_replica_checks_the_state_root', r.pc, None, z3.And(same, z3.BoolVal('append' in kinds and 'restore' not in kinds)), wit, lambda m, w: 'replica-accepts-wrong-root')
        else:
            ck.require(ex, 'B5_replica_checks_the_state_root', r.pc, None, z3.BoolVal('restore' in kinds), wit, lambda m, w: 'replica-refuses-without-restoring')
ex.extra_models.clear()
ex.extra_models.update(b5_saved)
if replica_paths == 0:
    ck.inconclusive.append('B5 vacuous: no path recomputed a state root')
if committed_paths == 0:
    ck.inconclusive.append('B4 vacuous: no path of commit took a pre-image')

for v in ck.violations:
    if v['witness'].get('chain_op') == 'replica_apply':
        rep = Replay.call({'op': 'chain_replica_apply', **v['witness']})
        v['native'] = rep
        v['replayed'] = rep.get('violates')
        continue
    if v['witness'].get('chain_op') == 'commit_refused':
        rep = Replay.call({'op': 'chain_commit_refused'})
        v['native'] = rep
        v['replayed'] = rep.get('violates')
        continue
    if v['witness'].get('chain_op') == 'commit_race':
        rep = Replay.call({'op': 'chain_commit_race'})
        v['native'] = rep
        v['replayed'] = rep.get('violates')
        continue
    rep = Replay.call({'op': 'chain_step', **v['witness']})
    v['native'] = rep
    v['replayed'] = rep.get('violates')
ck.functions += ['TensorStateMachine::apply_block', 'TensorStateMachine::apply_entry', 'TensorChain::commit', 'block::merkle_root', 'Chain::append', 'Chain::verify_chain', 'Chain::get_block_at', 'Chain::store_block', 'Chain::save_height', 'Block::verify_chain', 'Block::verify_tx_root', 'chain::block_key']
if __name__ == '__main__':
    ck.finish()
