"""C05 — graph structure, sequential half only: GraphEngine::{create_edge, delete_edge, delete_node} with the adjacency
helpers add_edge_to_list / remove_edge_from_list / extract_edge_ids / get_edge, executed from graph_engine's MIR over the
key/value contract of the store.  One operation from an arbitrary consistent graph of bounded size; the concurrent half
of the property (lost updates in the read-modify-write of adjacency lists under threads) is NOT decided."""
import sys
import os
import itertools
sys.path.insert(0, os.path.dirname(os.path.dirname(os.path.abspath(__file__))))
from props.common import *
from mirsym.models import some, none, ok as _ok, err as _err, deref
from mirsym.models_iter import map_find, map_insert

ck = Check('C05')
T = ck.tier
ex = ck.executor('graph_engine', unroll=24, default_maxlen=1, max_paths=100000)
P = ex.prog
F = P.field
NN = 2        # S4-S7 and the symbolic-id half of S1-S3; thorough adds three-node graphs with concrete ids to S1-S3
ck.bounds = {'graph': '2 nodes with symbolic distinct ids' + ('' if T == 'quick' else ' and 3 nodes with concrete distinct ids') + f', 0..2 edges between them (endpoints, direction flag symbolic), adjacency lists consistent with the edges',
             'operation': 'one create_edge / delete_edge / delete_node with symbolic arguments'}
ck.assumptions = [
    'the store is its key/value contract (get/put/delete/exists on a finite map); TensorData is its field map',
    'store keys node:<id>, edge:<id>, node:<id>:out, node:<id>:in are modelled as (kind, id) pairs (ids < 2^60): two keys are equal exactly when kind and id are',
    'edge-id strings in adjacency lists: u64::to_string / str::parse::<u64> as an exact inverse pair',
    'property indexes, statistics and the edge-type index are stubs; no constraints are defined (validate_edge_constraints runs over an empty constraint table)',
    'NOT decided: concurrent operations (the read-modify-write window of the adjacency lists), traversal/neighbor queries, node/edge updates, batch operations',
]
U64 = lambda v: z3.BitVecVal(v, 64)
KIND = {'node': 1, 'edge': 2, 'out': 3, 'in': 4}


def key_str(st, kind, idv):
    s = Str(z3.simplify(z3.Concat(z3.BitVecVal(KIND[kind], 4), z3.Extract(59, 0, idv))))
    st.env.setdefault('keyid', {})[s.id.get_id()] = (s.id, kind, idv)      # the oracle reads ids back without the packing
    return s


def m_key(kind):
    def f(c):
        return key_str(c.st, kind, c.args[0].v)
    return f


def kv_of(st):
    return st.roots['store'].fields['kv']


def m_store_get(c):
    m = kv_of(c.st)
    stale = c.st.env.get('stale')
    if stale is not None:
        key = deref(c.st, c.args[1])
        hit = c.st.env.get('keyid', {}).get(key.id.get_id()) if isinstance(key, Str) and key.id is not None else None
        if hit is not None and hit[1] in ('out', 'in'):
            # a read that opens a read-modify-write window of an adjacency list: the `at`-th one sees the store as it was
            # before the other thread's operation (that operation ran entirely inside this window)
            n = c.st.env.get('adj_gets', 0)
            # the stale value is the pre-B value only if A itself has not written this list earlier in its run; otherwise the
            # schedule is not expressible by this encoding and the window is skipped (the read sees the current value)
            own = any(z3.is_true(z3.simplify(k_.id == key.id)) for k_ in c.st.env.get('a_puts', []))
            if n == stale['at'] and not own:
                old = Map('std::string::String', 'TensorData', list(stale['keys']), list(stale['vals']))
                j = map_find(c.st, old, key, 'store.get(stale)')
                c.st.env['adj_gets'] = n + 1
                c.st.env['stale_used'] = True
                lk = c.st.roots.get('listlock:' + str(key.id.get_id()))
                c.st.env['window'] = (key.id, bool(lk is not None and getattr(lk, 'held', [])))
                if j is None:
                    return _err(Opaque('TensorStoreError::NotFound'), 'Result<TensorData, TensorStoreError>')
                v = old.vals[j]
                return _ok(Struct('TensorData', {'f': Map('std::string::String', 'TensorValue', list(v.fields['f'].keys), list(v.fields['f'].vals))}), 'Result<TensorData, TensorStoreError>')
            i = map_find(c.st, m, c.args[1], 'store.get')
            c.st.env['adj_gets'] = n + 1
            if i is None:
                return _err(Opaque('TensorStoreError::NotFound'), 'Result<TensorData, TensorStoreError>')
            v = m.vals[i]
            return _ok(Struct('TensorData', {'f': Map('std::string::String', 'TensorValue', list(v.fields['f'].keys), list(v.fields['f'].vals))}), 'Result<TensorData, TensorStoreError>')
    i = map_find(c.st, m, c.args[1], 'store.get')
    if i is None:
        return _err(Opaque('TensorStoreError::NotFound'), 'Result<TensorData, TensorStoreError>')
    # TensorStore::get hands out a copy
    v = m.vals[i]
    cp = Struct('TensorData', {'f': Map('std::string::String', 'TensorValue', list(v.fields['f'].keys), list(v.fields['f'].vals))})
    return _ok(cp, 'Result<TensorData, TensorStoreError>')


def m_store_put(c):
    m = kv_of(c.st)
    key = deref(c.st, c.args[1])
    i = map_find(c.st, m, key, 'store.put')
    if c.st.env.get('stale') is not None:
        c.st.env['a_puts'] = c.st.env.get('a_puts', []) + [key]
    if i is None:
        m.keys.append(key)
        m.vals.append(c.args[2])
    else:
        m.vals[i] = c.args[2]
    return _ok(UNIT, 'Result<(), TensorStoreError>')


def m_store_delete(c):
    m = kv_of(c.st)
    i = map_find(c.st, m, c.args[1], 'store.delete')
    if i is None:
        return _err(Opaque('TensorStoreError::NotFound'), 'Result<(), TensorStoreError>')
    del m.keys[i]
    del m.vals[i]
    return _ok(UNIT, 'Result<(), TensorStoreError>')


def m_store_exists(c):
    m = kv_of(c.st)
    se = c.st.env.get('stale_exists')
    if se is not None:
        # S8: the endpoint checks of create_edge were made before the other thread's delete_node ran
        m = Map('std::string::String', 'TensorData', list(se['keys']), list(se['vals']))
    return z3.BoolVal(map_find(c.st, m, c.args[1], 'store.exists') is not None)


def m_td_new(c):
    return Struct('TensorData', {'f': Map('std::string::String', 'TensorValue', [], [])})


def m_td_set(c):
    td = deref(c.st, c.args[0])
    map_insert(c.st, td.fields['f'], deref(c.st, c.args[1]), c.args[2])
    return UNIT


def m_td_get(c):
    from mirsym.exec import TypedPtr
    td = deref(c.st, c.args[0])
    m = td.fields['f']
    i = map_find(c.st, m, c.args[1], 'tensor.get')
    if i is None:
        return none('Option<&TensorValue>')
    return some(TypedPtr(m, i, 'TensorValue'), 'Option<&TensorValue>')


def m_td_remove(c):
    td = deref(c.st, c.args[0])
    m = td.fields['f']
    i = map_find(c.st, m, c.args[1], 'tensor.remove')
    if i is None:
        return none('Option<TensorValue>')
    v = m.vals[i]
    del m.keys[i]
    del m.vals[i]
    return some(v, 'Option<TensorValue>')


def m_td_keys(c):
    from mirsym.models import new_cell_ptr
    td = deref(c.st, c.args[0])
    return IterObj([new_cell_ptr(k) for k in td.fields['f'].keys], 0, 'list')


# decimal strings of edge ids: to_string / parse as an inverse pair
def num_str(st, iv):
    s = Str(z3.simplify(z3.Concat(z3.BitVecVal(9, 4), z3.Extract(59, 0, iv))))
    st.env.setdefault('numstr', {})[s.id.get_id()] = (s.id, iv)
    return s


def m_to_string(c):
    v = deref(c.st, c.args[0])
    if isinstance(v, Int):
        return num_str(c.st, v.v)
    if isinstance(v, Str):
        return v
    raise Unsupported('to_string of ' + type(v).__name__)


def m_parse_u64(c):
    s = deref(c.st, c.args[0])
    tab = c.st.env.get('numstr', {})
    hit = tab.get(s.id.get_id()) if isinstance(s, Str) and s.id is not None else None
    if hit is not None:
        return _ok(Int(hit[1], False), 'Result<u64, ParseIntError>')
    if isinstance(s, Str) and s.text is not None:
        if s.text.isdigit():
            return _ok(Int(U64(int(s.text)), False), 'Result<u64, ParseIntError>')
        return _err(Opaque('ParseIntError'), 'Result<u64, ParseIntError>')
    raise Unsupported('parse::<u64> of an unknown string')


noop = lambda c: UNIT


def m_edge_list_lock(c):
    # GraphEngine::edge_list_lock(key): a write guard on the stripe the key hashes to.  Modelled as one lock per key (the same key
    # always maps to the same stripe; two different keys sharing a stripe only block more schedules than modelled here).
    from mirsym.models_std import _lock
    key = deref(c.st, c.args[1])
    name = 'listlock:' + str(key.id.get_id())
    if name not in c.st.roots:
        c.st.roots[name] = Struct('RwLock', {'data': Cell(val=UNIT)})
    c.st.notes.append(('list_lock', key.id))
    sub = type('C', (), {})()
    sub.st, sub.args, sub.canon = c.st, [ref(c.st.roots[name])], 'RwLock::write'
    return _lock(sub, 'w')


ex.extra_models.update({
    'GraphEngine::node_key': m_key('node'), 'GraphEngine::edge_key': m_key('edge'),
    'GraphEngine::outgoing_edges_key': m_key('out'), 'GraphEngine::incoming_edges_key': m_key('in'),
    'TensorStore::get': m_store_get, 'TensorStore::put': m_store_put, 'TensorStore::delete': m_store_delete, 'TensorStore::exists': m_store_exists,
    'TensorData::new': m_td_new, 'TensorData::set': m_td_set, 'TensorData::get': m_td_get, 'TensorData::remove': m_td_remove, 'TensorData::keys': m_td_keys,
    '<u64 as ToString>::to_string': m_to_string, 'u64::to_string': m_to_string,
    'core::str::parse': m_parse_u64, 'str::parse': m_parse_u64,
    'GraphEngine::edge_list_lock': m_edge_list_lock,
    'GraphEngine::has_any_unique_edge_constraint': lambda c: z3.BoolVal(False),
    'GraphEngine::index_remove': noop, 'GraphEngine::index_add': noop,
    'GraphEngine::ensure_edge_type_index': noop, 'GraphEngine::index_edge_properties': noop, 'GraphEngine::unindex_edge_properties': noop,
    'GraphEngine::unindex_node_properties': noop, 'GraphEngine::index_node_properties': noop,
    'current_timestamp_millis': lambda c: Int(z3.BitVec(c.st.fresh_name('now'), 64), False),
    'graph_engine::current_timestamp_millis': lambda c: Int(z3.BitVec(c.st.fresh_name('now'), 64), False),
})


def tv_int(v):
    return Enum('TensorValue', P.variant_index('TensorValue', 'Scalar'), {('Scalar', 0): Enum('ScalarValue', P.variant_index('ScalarValue', 'Int'), {('Int', 0): Int(v, True)}, variant='Int')}, variant='Scalar')


def tv_bool(b):
    return Enum('TensorValue', P.variant_index('TensorValue', 'Scalar'), {('Scalar', 0): Enum('ScalarValue', P.variant_index('ScalarValue', 'Bool'), {('Bool', 0): b}, variant='Bool')}, variant='Scalar')


def tv_str(s):
    return Enum('TensorValue', P.variant_index('TensorValue', 'Scalar'), {('Scalar', 0): Enum('ScalarValue', P.variant_index('ScalarValue', 'String'), {('String', 0): s}, variant='String')}, variant='Scalar')


def tv_ptrs(strs):
    return Enum('TensorValue', P.variant_index('TensorValue', 'Pointers'), {('Pointers', 0): Seq('std::string::String', list(strs))}, variant='Pointers')


def td(fields):
    return Struct('TensorData', {'f': Map('std::string::String', 'TensorValue', [Str(text=k) for k in fields], list(fields.values()))})


class Graph:
    """nn nodes with distinct symbolic ids, edges = list of (from_idx, to_idx) with symbolic ids and direction flags"""

    def __init__(self, st, nn, edges, concrete=False):
        self.st = st
        self.nid = [z3.BitVec(f'n{i}', 64) for i in range(nn)] if not concrete else [U64(10 + i) for i in range(nn)]
        self.eid = [z3.BitVec(f'e{j}', 64) for j in range(len(edges))] if not concrete else [U64(100 + j) for j in range(len(edges))]
        self.directed = [z3.Bool(f'dir{j}') for j in range(len(edges))]
        self.edges = edges
        for v in self.nid + self.eid:
            st.assume(z3.ULT(v, U64(1 << 59)))
            st.assume(z3.UGT(v, U64(0)))
        for a, b in itertools.combinations(self.nid, 2):
            st.assume(a != b)
        for a, b in itertools.combinations(self.eid, 2):
            st.assume(a != b)
        keys, vals = [], []
        for i in range(nn):
            keys.append(key_str(st, 'node', self.nid[i]))
            vals.append(td({'_id': tv_int(self.nid[i]), '_type': tv_str(Str(text='node')), '_labels': tv_ptrs([]), '_created_at': tv_int(z3.BitVec(f'ncreated{i}', 64))}))
        for j, (a, b) in enumerate(edges):
            keys.append(key_str(st, 'edge', self.eid[j]))
            vals.append(td({'_id': tv_int(self.eid[j]), '_type': tv_str(Str(text='edge')), '_from': tv_int(self.nid[a]), '_to': tv_int(self.nid[b]),
                            '_edge_type': tv_str(Str(z3.BitVec(f'etype{j}', 64))), '_directed': tv_bool(self.directed[j])}))
        # adjacency lists: out(from) and in(to) always; for an undirected edge also out(to) and in(from).  Direction flags are
        # symbolic, so the lists are built for both cases by fixing the flags per graph instance (concretised by the caller)
        self.keys, self.vals = keys, vals
        st.roots['store'] = Struct('TensorStore', {'kv': Map('std::string::String', 'TensorData', keys, vals)})

    def add_lists(self, st, dirs):
        lists = {}
        for j, (a, b) in enumerate(self.edges):
            st.assume(self.directed[j] == z3.BoolVal(dirs[j]))
            lists.setdefault(('out', a), []).append(j)
            lists.setdefault(('in', b), []).append(j)
            if not dirs[j]:
                if ('out', b) not in lists or j not in lists[('out', b)]:
                    lists.setdefault(('out', b), []).append(j)
                if ('in', a) not in lists or j not in lists[('in', a)]:
                    lists.setdefault(('in', a), []).append(j)
        kv = kv_of(st)
        # create_node stores both lists for every node (an empty TensorData when there are no edges)
        for i in range(len(self.nid)):
            for kind in ('out', 'in'):
                js = lists.get((kind, i), [])
                kv.keys.append(key_str(st, kind, self.nid[i]))
                kv.vals.append(td({'_edges': tv_ptrs([num_str(st, self.eid[j]) for j in js])}) if js else td({}))
        self.lists = lists


def snapshot(st):
    """(edges, lists): edges = [(eid, from, to, directed)], lists = {(kind, node id term): [edge id terms]} from the store"""
    kv = kv_of(st)
    edges, lists, nodes = [], [], []
    for k, v in zip(kv.keys, kv.vals):
        hit = st.env.get('keyid', {}).get(k.id.get_id())
        if hit is None:
            raise RuntimeError('store key without a recorded (kind, id): ' + str(k.id))
        kd, ident = KIND[hit[1]], hit[2]
        kid = k.id
        fm = v.fields['f']
        get = lambda name: next((fm.vals[i] for i, kk in enumerate(fm.keys) if getattr(kk, 'text', None) == name), None)
        if kd == KIND['node']:
            nodes.append(ident)
        elif kd == KIND['edge']:
            fr, to, dr = get('_from'), get('_to'), get('_directed')
            edges.append((ident, fr.fields[('Scalar', 0)].fields[('Int', 0)].v, to.fields[('Scalar', 0)].fields[('Int', 0)].v, dr.fields[('Scalar', 0)].fields[('Bool', 0)]))
        elif kd in (KIND['out'], KIND['in']):
            e = get('_edges')
            ids = []
            if e is not None:
                tab = st.env.get('numstr', {})
                for s_ in e.fields[('Pointers', 0)].items(st):
                    hit = tab.get(s_.id.get_id())
                    ids.append(hit[1] if hit else None)
            lists.append(('out' if kd == KIND['out'] else 'in', ident, ids))
        else:
            raise RuntimeError('unknown key kind in the store: ' + str(kid))
    return nodes, edges, lists


def consistent(nodes, edges, lists):
    """z3: every edge is listed by both endpoints in the right lists, every listed id is an existing edge touching the node,
    both endpoints of every edge exist"""
    cs = []

    def listed(kind, node, eid):
        alts = [z3.And(n == node, z3.Or([x == eid for x in ids if x is not None] + [z3.BoolVal(False)])) for (k, n, ids) in lists if k == kind]
        return z3.Or(alts) if alts else z3.BoolVal(False)
    for (eid, fr, to, dr) in edges:
        cs.append(z3.Or([n == fr for n in nodes] + [z3.BoolVal(False)]))
        cs.append(z3.Or([n == to for n in nodes] + [z3.BoolVal(False)]))
        cs.append(listed('out', fr, eid))
        cs.append(listed('in', to, eid))
        cs.append(z3.Implies(z3.Not(dr), z3.And(listed('out', to, eid), listed('in', fr, eid))))
    for (k, n, ids) in lists:
        for x in ids:
            if x is None:
                cs.append(z3.BoolVal(False))
                continue
            touch = []
            for (eid, fr, to, dr) in edges:
                if k == 'out':
                    touch.append(z3.And(eid == x, z3.Or(fr == n, z3.And(z3.Not(dr), to == n))))
                else:
                    touch.append(z3.And(eid == x, z3.Or(to == n, z3.And(z3.Not(dr), fr == n))))
            cs.append(z3.Or(touch) if touch else z3.BoolVal(False))
    return z3.And(cs) if cs else z3.BoolVal(True)


def run(st, fname, args):
    st.frames = []
    ex.call(st, fname, args)
    return ex.run(st)


def engine(st):
    g = Struct('GraphEngine', {F('GraphEngine', 'store'): st.roots['store'],
                               F('GraphEngine', 'constraints'): Struct('RwLock', {'data': Cell(val=Map('std::string::String', 'Constraint', [], []))})}, lazy='GE')
    st.roots['ge'] = g
    return g


EDGE_SETS = [[], [(0, 1)], [(0, 1), (1, 0)], [(0, 1), (0, 1)], [(0, 0)]]
EDGE_SETS3 = EDGE_SETS + [[(0, 1), (1, 2)], [(0, 1), (2, 1)], [(0, 2), (2, 0)], [(0, 0), (0, 1)], [(1, 1), (0, 1)]]
# (nodes, edge sets, concrete ids): symbolic ids on two nodes; thorough adds three nodes with concrete ids (with symbolic ids one
# three-node query ran into the 60 s cap, and only equalities between ids matter)
S123 = [(2, EDGE_SETS, False)] + ([(3, EDGE_SETS3, True)] if T != 'quick' else [])

ck.declare('S1_create_edge_links_both_ends', 'create_edge(from, to, type, {}, directed) with symbolic arguments on every bounded graph',
           'Ok(id) => both endpoints exist, the edge record is stored with these endpoints, the graph is consistent again, every earlier edge is still there; Err => nothing changed')
ck.declare('S2_delete_edge_unlinks_both_ends', 'delete_edge(id) with a symbolic id',
           'Ok => the edge record is gone, no adjacency list mentions it, every other edge and list entry is untouched, the graph is consistent; Err (unknown id) => nothing changed')
ck.declare('S3_delete_node_removes_incident_edges', 'delete_node(id) with a symbolic id',
           'Ok => the node, its two lists and every edge touching it are gone, no list mentions such an edge, edges not touching it are untouched, the graph is consistent')
created = deleted = ndeleted = 0
for nn_, es, conc_ in [(n_, e_, c_) for (n_, sets_, c_) in S123 for e_ in sets_]:
    for dirs in itertools.product((True, False), repeat=len(es)):
        for opname in ('create_edge', 'delete_edge', 'delete_node'):
            st = ex.new_state()
            G = Graph(st, nn_, es, concrete=conc_)
            G.add_lists(st, dirs)
            ge = engine(st)
            n0, e0, l0 = snapshot(st)
            pre_ok = consistent(n0, e0, l0)
            if ex.solver.check(st.pc, z3.Not(pre_ok)) != z3.unsat:
                ck.inconclusive.append(f'pre-state {es} {dirs} is not consistent: oracle or construction wrong')
                continue
            a1, a2 = z3.BitVec('arg1', 64), z3.BitVec('arg2', 64)
            st.assume(z3.ULT(a1, U64(1 << 59)))
            st.assume(z3.ULT(a2, U64(1 << 59)))
            if opname == 'create_edge':
                ge.fields[F('GraphEngine', 'edge_counter')] = Struct('AtomicU64', {'data': Cell(val=Int(z3.BitVec('ecounter', 64), False))})
                st.assume(z3.ULT(z3.BitVec('ecounter', 64), U64((1 << 59) - 2)))
                for e_ in G.eid:
                    st.assume(z3.ULE(e_, z3.BitVec('ecounter', 64)))     # ids handed out so far are below the counter
                dflag = z3.Bool('new_directed')
                args = [ref(ge), Int(a1, False), Int(a2, False), Str(z3.BitVec('new_type', 64)), Map('std::string::String', 'PropertyValue', [], []), dflag]
            else:
                args = [ref(ge), Int(a1, False)]
            import time as _t; _t0 = _t.time(); _q0 = ex.solver.time if hasattr(ex.solver, 'time') else 0
            res = run(st, 'GraphEngine::' + opname, args)
            if os.environ.get('C05_TIMING'): print('RUN', opname, es, dirs, len(res), round(_t.time() - _t0, 1), flush=True)
            ck.note_path_problem(res, f'{opname} edges={es} dirs={dirs}')
            for r in res:
                wit = lambda m, G=G, es=es, dirs=dirs, opname=opname: {'graph_call': opname, 'nodes': [mval(m, x) for x in G.nid], 'edges': [[a, b, mval(m, G.eid[j]), dirs[j]] for j, (a, b) in enumerate(es)],
                                                                       'arg1': mval(m, a1), 'arg2': mval(m, a2), 'new_directed': bool(mval(m, z3.Bool('new_directed')))}
                ob = {'create_edge': 'S1_create_edge_links_both_ends', 'delete_edge': 'S2_delete_edge_unlinks_both_ends', 'delete_node': 'S3_delete_node_removes_incident_edges'}[opname]
                if r.status == 'panic':
                    ck.require(ex, ob, r.pc, None, z3.BoolVal(False), wit, lambda m, w: 'graph-panic')
                    continue
                if r.status != 'return':
                    continue
                f = r.st
                n1, e1, l1 = snapshot(f)
                same_edges = lambda pre, post, keep: z3.And([z3.Implies(keep(eid, fr, to), z3.Or([z3.And(x == eid, y == fr, z_ == to, d2 == dr) for (x, y, z_, d2) in post] + [z3.BoolVal(False)])) for (eid, fr, to, dr) in pre] + [z3.BoolVal(True)])
                if r.retval.variant != 'Ok':
                    unchanged = z3.And(z3.BoolVal(len(n1) == len(n0) and len(e1) == len(e0) and len(l1) == len(l0)), same_edges(e0, e1, lambda *_: z3.BoolVal(True)), consistent(n1, e1, l1))
                    ck.require(ex, ob, r.pc, None, unchanged, wit, lambda m, w: 'refused-call-changed-graph')
                    continue
                if opname == 'create_edge':
                    created += 1
                    nid = r.retval.fields[('Ok', 0)].v
                    cs = [z3.Or([n == a1 for n in n0]), z3.Or([n == a2 for n in n0]), z3.BoolVal(len(e1) == len(e0) + 1),
                          z3.Or([z3.And(x == nid, y == a1, z_ == a2, d2 == z3.Bool('new_directed')) for (x, y, z_, d2) in e1] + [z3.BoolVal(False)]),
                          same_edges(e0, e1, lambda *_: z3.BoolVal(True)), consistent(n1, e1, l1), z3.BoolVal(len(n1) == len(n0))]
                    ck.require(ex, ob, r.pc, None, z3.And(cs), wit, lambda m, w: 'create-edge')
                elif opname == 'delete_edge':
                    deleted += 1
                    cs = [z3.Or([eid == a1 for (eid, _, _, _) in e0] + [z3.BoolVal(False)]), z3.And([x != a1 for (x, _, _, _) in e1] + [z3.BoolVal(True)]),
                          same_edges(e0, e1, lambda eid, fr, to: eid != a1), z3.BoolVal(len(e1) == len(e0) - 1 and len(n1) == len(n0)), consistent(n1, e1, l1)]
                    for (k, n, ids) in l1:
                        cs += [x != a1 for x in ids if x is not None]
                    ck.require(ex, ob, r.pc, None, z3.And(cs), wit, lambda m, w: 'delete-edge')
                else:
                    ndeleted += 1
                    touches = lambda eid, fr, to: z3.Or(fr == a1, to == a1)
                    cs = [z3.Or([n == a1 for n in n0]), z3.And([n != a1 for n in n1] + [z3.BoolVal(True)]), z3.BoolVal(len(n1) == len(n0) - 1),
                          z3.And([z3.And(y != a1, z_ != a1) for (x, y, z_, d2) in e1] + [z3.BoolVal(True)]),
                          same_edges(e0, e1, lambda eid, fr, to: z3.Not(touches(eid, fr, to))), consistent(n1, e1, l1),
                          z3.And([n != a1 for (k, n, ids) in l1] + [z3.BoolVal(True)])]
                    ck.require(ex, ob, r.pc, None, z3.And(cs), wit, lambda m, w: 'delete-node')
if created == 0 or deleted == 0 or ndeleted == 0:
    ck.inconclusive.append(f'vacuous: create_edge succeeded on {created} paths, delete_edge on {deleted}, delete_node on {ndeleted}')

# ------------------------------------------------------------------ S7: user properties cannot disturb the structure
ck.declare('S7_properties_do_not_touch_structure', 'create_edge(from, to, type, {name: value}, directed) and update_edge(id, {name: value}) with a symbolic property name and value Int(v) or Null, on the two-node graph with 0..1 edges',
           'Ok(id) => the stored edge has the endpoints and direction that were passed and the graph is consistent - whatever the property is called; (a refusal of the property name is fine)')
prop_runs = 0
NULLV = lambda: Enum('PropertyValue', P.variant_index('PropertyValue', 'Null'), {}, variant='Null')
for es in ([], [(0, 1)]):
    for dirs in itertools.product((True, False), repeat=len(es)):
        for vkind, call in itertools.product(('Int', 'Null'), ('create_edge', 'update_edge')):
            if call == 'update_edge' and not es:
                continue
            st = ex.new_state()
            G = Graph(st, NN, es, concrete=True)
            G.add_lists(st, dirs)
            ge = engine(st)
            ge.fields[F('GraphEngine', 'edge_counter')] = Struct('AtomicU64', {'data': Cell(val=Int(U64(200), False))})
            a1, a2, pv = z3.BitVec('arg1', 64), z3.BitVec('arg2', 64), z3.BitVec('prop_value', 64)
            st.assume(z3.And(z3.ULT(a1, U64(1 << 59)), z3.ULT(a2, U64(1 << 59)), z3.ULT(pv, U64(1 << 59))))
            pname = Str(z3.BitVec('prop_name', 64))
            pval = Enum('PropertyValue', P.variant_index('PropertyValue', 'Int'), {('Int', 0): Int(pv, True)}, variant='Int') if vkind == 'Int' else NULLV()
            props = Map('std::string::String', 'PropertyValue', [pname], [pval])
            n0, e0, l0 = snapshot(st)
            if call == 'create_edge':
                args = [ref(ge), Int(a1, False), Int(a2, False), Str(z3.BitVec('new_type', 64)), props, z3.Bool('new_directed')]
            else:
                args = [ref(ge), Int(a1, False), props]
            res = run(st, 'GraphEngine::' + call, args)
            ck.note_path_problem(res, f'{call} with a {vkind} property, edges={es}')
            for r in res:
                if r.status != 'return' or r.retval.variant != 'Ok':
                    continue
                prop_runs += 1
                try:
                    n1, e1, l1 = snapshot(r.st)
                    if call == 'create_edge':
                        nid_ = r.retval.fields[('Ok', 0)].v
                        cs = z3.And(consistent(n1, e1, l1), z3.Or([z3.And(x == nid_, y == a1, z_ == a2, d2 == z3.Bool('new_directed')) for (x, y, z_, d2) in e1] + [z3.BoolVal(False)]))
                    else:
                        same = z3.And([z3.Or([z3.And(x == eid, y == fr, z_ == to, d2 == dr) for (x, y, z_, d2) in e1] + [z3.BoolVal(False)]) for (eid, fr, to, dr) in e0] + [z3.BoolVal(len(e1) == len(e0))])
                        cs = z3.And(consistent(n1, e1, l1), same)
                except (AttributeError, KeyError, TypeError):
                    cs = z3.BoolVal(False)          # a system field is gone or no longer holds a value of its type
                names = ('_from', '_to', '_directed', '_id', '_type', '_edge_type', '_created_at', '_updated_at')

                def wit(m, r=r, es=es, dirs=dirs, G=G, vkind=vkind, call=call):
                    pid = mval(m, pname.id)
                    hit = [t for t in names if (Str(text=t).id.as_long() == pid)]
                    return {'graph_call': call + '_with_property', 'nodes': [mval(m, x) for x in G.nid], 'edges': [[a, b, mval(m, G.eid[j]), dirs[j]] for j, (a, b) in enumerate(es)],
                            'arg1': mval(m, a1), 'arg2': mval(m, a2), 'new_directed': bool(mval(m, z3.Bool('new_directed'))), 'property': hit[0] if hit else 'plain',
                            'value': mval(m, pv) if vkind == 'Int' else None}
                ck.require(ex, 'S7_properties_do_not_touch_structure', r.pc, None, cs, wit, lambda m, w: 'property-overwrites-system-field')
if prop_runs == 0:
    ck.inconclusive.append('S7 vacuous: create_edge with a property never succeeded')

# ------------------------------------------------------------------ S6: the batch path (its own copy of the edge-creation code)
ck.declare('S6_batch_create_edges_links_every_edge', 'batch_create_edges with 1..2 EdgeInput items (endpoints and direction flags symbolic) on every bounded graph with at most one edge',
           'Ok => one stored edge per item with the item\'s endpoints, ids distinct from every earlier id, the graph consistent, earlier edges untouched; Err (an endpoint missing) => nothing changed')
batched = 0
for es in [e for e in EDGE_SETS if len(e) <= 1]:
    for dirs in itertools.product((True, False), repeat=len(es)):
        for nitems in (1, 2):
            st = ex.new_state()
            G = Graph(st, NN, es, concrete=True)        # ids concrete as in S4 (symbolic ids cost minutes of solver time here)
            G.add_lists(st, dirs)
            ge = engine(st)
            ge.fields[F('GraphEngine', 'edge_counter')] = Struct('AtomicU64', {'data': Cell(val=Int(U64(200), False))})
            n0, e0, l0 = snapshot(st)
            items, ends = [], []
            for i in range(nitems):
                f_, t_, d_ = z3.BitVec(f'bf{i}', 64), z3.BitVec(f'bt{i}', 64), z3.Bool(f'bd{i}')
                st.assume(z3.And(z3.ULT(f_, U64(1 << 59)), z3.ULT(t_, U64(1 << 59))))
                ends.append((f_, t_, d_))
                items.append(Struct('EdgeInput', {F('EdgeInput', 'from'): Int(f_, False), F('EdgeInput', 'to'): Int(t_, False), F('EdgeInput', 'edge_type'): Str(z3.BitVec(f'btype{i}', 64)),
                                                  F('EdgeInput', 'properties'): Map('std::string::String', 'PropertyValue', [], []), F('EdgeInput', 'directed'): d_}))
            res = run(st, 'GraphEngine::batch_create_edges', [ref(ge), Seq('EdgeInput', items)])
            ck.note_path_problem(res, f'batch_create_edges items={nitems} edges={es}')
            for r in res:
                wit = lambda m, G=G, es=es, dirs=dirs, ends=ends: {'graph_call': 'batch_create_edges', 'nodes': [mval(m, x) for x in G.nid], 'edges': [[a, b, mval(m, G.eid[j]), dirs[j]] for j, (a, b) in enumerate(es)],
                                                                  'items': [[mval(m, f_), mval(m, t_), bool(mval(m, d_))] for (f_, t_, d_) in ends]}
                if r.status == 'panic':
                    ck.require(ex, 'S6_batch_create_edges_links_every_edge', r.pc, None, z3.BoolVal(False), wit, lambda m, w: 'batch-panic')
                    continue
                if r.status != 'return':
                    continue
                n1, e1, l1 = snapshot(r.st)
                keep = z3.And([z3.Or([z3.And(x == eid, y == fr, z_ == to, d2 == dr) for (x, y, z_, d2) in e1] + [z3.BoolVal(False)]) for (eid, fr, to, dr) in e0] + [z3.BoolVal(True)])
                if r.retval.variant == 'Ok':
                    batched += 1
                    cs = [z3.BoolVal(len(e1) == len(e0) + nitems), keep, consistent(n1, e1, l1)]
                    new_edges = [e for e in e1 if not any(z3.is_true(z3.simplify(e[0] == o[0])) for o in e0)]
                    for (f_, t_, d_) in ends:
                        cs.append(z3.Or([z3.And(y == f_, z_ == t_, d2 == d_, z3.And([x != o[0] for o in e0] + [z3.BoolVal(True)])) for (x, y, z_, d2) in e1] + [z3.BoolVal(False)]))
                    ck.require(ex, 'S6_batch_create_edges_links_every_edge', r.pc, None, z3.And(cs), wit, lambda m, w: 'batch-create')
                else:
                    ck.require(ex, 'S6_batch_create_edges_links_every_edge', r.pc, None, z3.And(z3.BoolVal(len(e1) == len(e0) and len(l1) == len(l0)), keep, consistent(n1, e1, l1)), wit, lambda m, w: 'refused-batch-changed-graph')
if batched == 0:
    ck.inconclusive.append('S6 vacuous: batch_create_edges never succeeded')

# ------------------------------------------------------------------ S4: two threads, one inside the other's read-modify-write window
# Schedules covered: thread B's create_edge runs entirely between the read and the write-back of the k-th adjacency-list
# update of thread A's create_edge / delete_edge (k = 0..3).  Encoded as: B's operation from S0 to S1, then A's operation on S1
# in which the k-th list read returns the S0 value.  A's other store accesses commute with B's (different edge records, atomic
# counter, node records untouched), so the final state equals the interleaved run's up to list order and the numbering of the
# two new edges; every counterexample is replayed on the real code through the schedule hook before it is reported.
ck.declare('S4_concurrent_list_updates_keep_both', 'thread A: create_edge or delete_edge; thread B: create_edge, run entirely inside A\'s k-th adjacency read-modify-write window (k = 0..3); all arguments symbolic',
           'when both calls return Ok the graph is consistent at quiescence: B\'s edge is listed by both of its endpoints, A\'s effect is complete')
CONC_SETS = [[], [(0, 1)]] if T == 'quick' else EDGE_SETS
windows_hit = 0
for es in CONC_SETS:
    for dirs in itertools.product((True, False), repeat=len(es)):
        for aop in ('create_edge', 'delete_edge'):
            if aop == 'delete_edge' and not es:
                continue
            for k in range(4):
                st = ex.new_state()
                # ids concrete here (distinct constants): only equalities between ids matter and the arguments stay symbolic
                G = Graph(st, NN, es, concrete=True)
                G.add_lists(st, dirs)
                ge = engine(st)
                ge.fields[F('GraphEngine', 'edge_counter')] = Struct('AtomicU64', {'data': Cell(val=Int(U64(200), False))})
                kv0 = kv_of(st)
                snap_keys, snap_vals = list(kv0.keys), [Struct('TensorData', {'f': Map('std::string::String', 'TensorValue', list(v.fields['f'].keys), list(v.fields['f'].vals))}) for v in kv0.vals]
                b1, b2, a1, a2 = (z3.BitVec(n_, 64) for n_ in ('b_from', 'b_to', 'arg1', 'arg2'))
                for x in (b1, b2, a1, a2):
                    st.assume(z3.ULT(x, U64(1 << 59)))
                mkargs = lambda s_, f_, t_, dn: [ref(s_.roots['ge']), Int(f_, False), Int(t_, False), Str(z3.BitVec(dn + '_type', 64)), Map('std::string::String', 'PropertyValue', [], []), z3.Bool(dn + '_directed')]
                resB = run(st, 'GraphEngine::create_edge', mkargs(st, b1, b2, 'b'))
                ck.note_path_problem(resB, f'S4 B create_edge edges={es}')
                for rb in resB:
                    if rb.status != 'return' or rb.retval.variant != 'Ok':
                        continue
                    bid = rb.retval.fields[('Ok', 0)].v
                    s1 = rb.st
                    b_locked = [x[1] for x in s1.notes if x[0] == 'list_lock']
                    s1.env['stale'] = {'at': k, 'keys': snap_keys, 'vals': snap_vals}
                    s1.env['adj_gets'] = 0
                    s1.env['a_puts'] = []
                    s1.env['stale_used'] = False
                    argsA = mkargs(s1, a1, a2, 'new') if aop == 'create_edge' else [ref(s1.roots['ge']), Int(a1, False)]
                    resA = run(s1, 'GraphEngine::' + aop, argsA)
                    ck.note_path_problem(resA, f'S4 A {aop} window {k} edges={es}')
                    for ra in resA:
                        if ra.status != 'return' or ra.retval.variant != 'Ok' or not ra.st.env.get('stale_used'):
                            continue
                        windows_hit += 1
                        f = ra.st
                        n1, e1, l1 = snapshot(f)
                        cs = [consistent(n1, e1, l1), z3.Or([z3.And(x == bid, y == b1, z_ == b2) for (x, y, z_, d2) in e1] + [z3.BoolVal(False)])]
                        if aop == 'delete_edge':
                            cs.append(z3.And([x != a1 for (x, _, _, _) in e1] + [z3.BoolVal(True)]))
                            hyp = a1 != bid       # A deletes an edge that existed before B ran
                        else:
                            hyp = z3.BoolVal(True)
                        # the schedule exists only if B is not shut out of the window: A holds the list's lock there and B needs it
                        wkey, wlocked = f.env.get('window', (None, False))
                        if wlocked:
                            hyp = z3.And(hyp, z3.And([bk != wkey for bk in b_locked] + [z3.BoolVal(True)]))
                        wit = lambda m, G=G, es=es, dirs=dirs, aop=aop, k=k: {'graph_call': aop, 'nodes': [mval(m, x) for x in G.nid], 'edges': [[a, b, mval(m, G.eid[j]), dirs[j]] for j, (a, b) in enumerate(es)],
                                                                            'arg1': mval(m, a1), 'arg2': mval(m, a2), 'new_directed': bool(mval(m, z3.Bool('new_directed'))),
                                                                            'concurrent': {'window': k, 'from': mval(m, b1), 'to': mval(m, b2), 'directed': bool(mval(m, z3.Bool('b_directed')))}}
                        ck.require(ex, 'S4_concurrent_list_updates_keep_both', ra.pc, hyp, z3.And(cs), wit, lambda m, w: 'lost-adjacency-update')
if windows_hit == 0:
    ck.inconclusive.append('S4 vacuous: no path used a stale read')

# ------------------------------------------------------------------ S8: delete_node between create_edge's endpoint checks and its writes
ck.declare('S8_create_edge_vs_delete_node', 'thread A: create_edge(from, to); thread B: delete_node(n) run entirely after A has checked that both endpoints exist and before A writes anything',
           'when both return Ok the graph is consistent at quiescence - in particular the new edge does not name a node that no longer exists')
s8 = 0
for es in ([], [(0, 1)]):
    for dirs in itertools.product((True, False), repeat=len(es)):
        st = ex.new_state()
        G = Graph(st, NN, es, concrete=True)
        G.add_lists(st, dirs)
        ge = engine(st)
        ge.fields[F('GraphEngine', 'edge_counter')] = Struct('AtomicU64', {'data': Cell(val=Int(U64(200), False))})
        kv0 = kv_of(st)
        snap_keys, snap_vals = list(kv0.keys), list(kv0.vals)
        a1, a2, bn = z3.BitVec('arg1', 64), z3.BitVec('arg2', 64), z3.BitVec('b_node', 64)
        st.assume(z3.And(z3.ULT(a1, U64(1 << 59)), z3.ULT(a2, U64(1 << 59)), z3.ULT(bn, U64(1 << 59))))
        resB = run(st, 'GraphEngine::delete_node', [ref(ge), Int(bn, False)])
        ck.note_path_problem(resB, f'S8 delete_node edges={es}')
        for rb in resB:
            if rb.status != 'return' or rb.retval.variant != 'Ok':
                continue
            s1 = rb.st
            s1.env['stale_exists'] = {'keys': snap_keys, 'vals': snap_vals}
            resA = run(s1, 'GraphEngine::create_edge', [ref(s1.roots['ge']), Int(a1, False), Int(a2, False), Str(z3.BitVec('new_type', 64)), Map('std::string::String', 'PropertyValue', [], []), z3.Bool('new_directed')])
            ck.note_path_problem(resA, f'S8 create_edge edges={es}')
            for ra in resA:
                if ra.status != 'return' or ra.retval.variant != 'Ok':
                    continue
                s8 += 1
                n1, e1, l1 = snapshot(ra.st)
                wit = lambda m, G=G, es=es, dirs=dirs: {'graph_call': 'create_edge', 'nodes': [mval(m, x) for x in G.nid], 'edges': [[a, b, mval(m, G.eid[j]), dirs[j]] for j, (a, b) in enumerate(es)],
                                                        'arg1': mval(m, a1), 'arg2': mval(m, a2), 'new_directed': bool(mval(m, z3.Bool('new_directed'))),
                                                        'concurrent': {'window': 'endpoints_checked', 'delete_node': mval(m, bn)}}
                ck.require(ex, 'S8_create_edge_vs_delete_node', ra.pc, None, consistent(n1, e1, l1), wit, lambda m, w: 'edge-created-on-deleted-node')
            s1.env.pop('stale_exists', None)
if s8 == 0:
    ck.inconclusive.append('S8 vacuous')

# ------------------------------------------------------------------ S5: id counters after a reopen
# GraphEngine::with_store / with_store_and_config scan the store for the highest node and edge id.  The keys here are concrete
# text ("node:9", "node:9:out", "edge:10", ...) so the string handling of the scan (contains, strip_prefix, rsplit, parse) runs on
# literals; id sets straddle a change in the number of digits.
ck.declare('S5_reopen_never_reuses_an_id', 'with_store and with_store_and_config over stores holding nodes / edges with ids {7}, {9,10}, {2,10,9}, {99,100,5}',
           'afterwards node_counter >= every stored node id and edge_counter >= every stored edge id (the next create_node / create_edge takes counter + 1, so no stored record is overwritten)')
_keep = {k: ex.extra_models.pop(k) for k in ('GraphEngine::node_key', 'GraphEngine::edge_key', 'GraphEngine::outgoing_edges_key', 'GraphEngine::incoming_edges_key', 'core::str::parse', 'str::parse')}


def m_scan(c):
    pre = deref(c.st, c.args[1])
    ks = [k for k in kv_of(c.st).keys if k.text is not None and k.text.startswith(pre.text)]
    return Seq('std::string::String', list(ks))


def m_parse_text(c):
    s_ = deref(c.st, c.args[0])
    if isinstance(s_, Str) and s_.text is not None:
        if s_.text.isdigit() and int(s_.text) < (1 << 64):
            return _ok(Int(U64(int(s_.text)), False), 'Result<u64, ParseIntError>')
        return _err(Opaque('ParseIntError'), 'Result<u64, ParseIntError>')
    raise Unsupported('parse::<u64> of a non-literal string')


ex.extra_models.update({'TensorStore::scan': m_scan, 'core::str::parse': m_parse_text, 'str::parse': m_parse_text,
                        'GraphEngine::rebuild_indexes_from_store': lambda c: Map('(IndexTarget, std::string::String)', 'BTreeMap<OrderedPropertyValue, Vec<u64>>', [], []),
                        'GraphEngine::load_constraints_from_store': lambda c: Map('std::string::String', 'Constraint', [], []),
                        'create_index_locks': lambda c: Seq('RwLock<()>', []),
                        '<GraphEngineConfig as Default>::default': lambda c: c.st.fresh('GraphEngineConfig', 'cfg')})
reopened = 0
try:
    for ids in ([7], [9, 10], [2, 10, 9], [99, 100, 5]):
        for fn in ('with_store', 'with_store_and_config'):
            st = ex.new_state()
            keys = []
            for i in ids:
                keys += [f'node:{i}', f'node:{i}:out', f'node:{i}:in', f'edge:{i}']
            store = Struct('TensorStore', {'kv': Map('std::string::String', 'TensorData', [Str(text=k) for k in keys], [td({}) for _ in keys])})
            st.roots['store'] = store
            args = [store] + ([st.fresh('GraphEngineConfig', 'cfg')] if fn.endswith('config') else [])
            res = run(st, 'GraphEngine::' + fn, args)
            ck.note_path_problem(res, f'{fn} ids={ids}')
            for r in res:
                wit = lambda m, ids=ids, fn=fn: {'graph_call': 'reopen', 'constructor': fn, 'ids': ids}
                if r.status == 'panic':
                    ck.require(ex, 'S5_reopen_never_reuses_an_id', r.pc, None, z3.BoolVal(False), wit, lambda m, w: 'reopen-panic')
                    continue
                if r.status != 'return':
                    continue
                reopened += 1
                ge2 = r.retval
                nc = ge2.fields[F('GraphEngine', 'node_counter')].fields['data'].load(0, None, r.st).v
                ec = ge2.fields[F('GraphEngine', 'edge_counter')].fields['data'].load(0, None, r.st).v
                ck.require(ex, 'S5_reopen_never_reuses_an_id', r.pc, None, z3.And(z3.UGE(nc, U64(max(ids))), z3.UGE(ec, U64(max(ids)))), wit, lambda m, w: 'id-reused-after-reopen')
finally:
    for k in ('TensorStore::scan', 'GraphEngine::rebuild_indexes_from_store', 'GraphEngine::load_constraints_from_store', 'create_index_locks', '<GraphEngineConfig as Default>::default'):
        ex.extra_models.pop(k, None)
    ex.extra_models.update(_keep)
if reopened == 0:
    ck.inconclusive.append('S5 vacuous: the constructors never returned')

for v in ck.violations:
    if v['witness'].get('graph_call') == 'reopen':
        rep = Replay.call({'op': 'graph_reopen', **v['witness']})
        v['native'] = rep
        v['replayed'] = rep.get('violates')
        continue
    rep = Replay.call({'op': 'graph_step', **v['witness']})
    v['native'] = rep
    v['replayed'] = rep.get('violates')
ck.functions += ['GraphEngine::batch_create_edges', 'GraphEngine::create_edge_internal', 'GraphEngine::with_store', 'GraphEngine::with_store_and_config', 'GraphEngine::create_edge', 'GraphEngine::delete_edge', 'GraphEngine::delete_node', 'GraphEngine::add_edge_to_list', 'GraphEngine::remove_edge_from_list',
                 'GraphEngine::extract_edge_ids', 'GraphEngine::get_edge', 'GraphEngine::get_node', 'GraphEngine::get_edge_list', 'GraphEngine::node_exists']
if __name__ == '__main__':
    ck.finish()
