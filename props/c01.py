"""C01 — Raft safety, as per-handler inductive obligations on the real handlers' MIR.
One delivery from an arbitrary (bounded-shape) pre-state; z3 decides each obligation per path."""
import sys
import os
sys.path.insert(0, os.path.dirname(os.path.dirname(os.path.abspath(__file__))))
from props.common import *
from mirsym.models import some, none, ok, err
from mirsym.exec import copy_val

ck = Check('C01')
T = ck.tier
ex = ck.executor('tensor_chain', unroll=10, default_maxlen=2, max_paths=60000)
P = ex.prog
MAXLOG = 2 if T == 'quick' else 3
MAXENT = 2
ck.bounds = {'follower/leader log length': f'0..{MAXLOG}', 'entries per AppendEntries': f'0..{MAXENT}', 'peers in match_index': '0..2 (quick) / 0..4 (thorough)',
             'integers': '64-bit, full range unless stated', 'loop unroll': 10,
             'configuration': 'enable_fast_path / enable_geometric_tiebreak / enable_pre_vote / membership health are unconstrained symbols: all settings covered'}
ck.assumptions = [
    'representation invariant on the pre-state: log indices consecutive from log_base_index+1 with log_base_index = 0; commit_index <= log length',
    'WAL persistence (persist_term_and_vote, persist_log_entry) returns Ok or Err nondeterministically; crash/restart is C10',
    'is_peer_healthy and geometric_vote_bias return arbitrary values (membership manager and embeddings are not modelled)',
    'FastPathValidator::check_fast_path result arbitrary; fast-path statistics calls are no-ops',
    'LogEntry payload (block, config_change, codebook_change) opaque; <LogEntry as Clone>::clone copies term/index and shares the payload',
    'the composition of the per-handler facts into cluster-level safety is the textbook argument and is not machine-checked',
    'leader pre-state invariant: 1 <= next_index[p] <= log length + 1 and match_index[p] <= log length for every peer p',
    'senders of responses are members of the (fixed) configuration; responses from unknown ids are outside the property',
    'outside: snapshot install/compaction, membership change / joint consensus, leadership transfer, transport, timers',
]
F = P.field
U64 = lambda v: z3.BitVecVal(v, 64)

# ---------------------------------------------------------------- environment overrides (nondeterministic stubs)


def nd_result(c):
    """Result<(), ChainError>: Ok(()) or Err(opaque) – caller explores both"""
    if c.st.choose(2, 'persist ok/err') == 0:
        return ok(UNIT, 'Result<(), ChainError>')
    c.st.notes.append(('persist_failed', c.canon))
    return err(Opaque('ChainError'), 'Result<(), ChainError>')


def persist_tv(c):
    r = nd_result(c)
    if r.variant == 'Ok':
        term = c.args[1]
        vote = c.args[2]
        c.st.notes.append(('persist_term_vote', term, vote))
    return r


def persist_entry(c):
    r = nd_result(c)
    if r.variant == 'Ok':
        c.st.notes.append(('persist_entry', c.args[1]))
    return r


def fresh_bool(c):
    return z3.Bool(c.st.fresh_name('env_bool'))


def fresh_f32(c):
    return Flt(z3.FP(c.st.fresh_name('env_f32'), z3.Float32()))


def logentry_clone(c):
    e = c.args[0].load(c.st)
    r = Struct('LogEntry', {F('LogEntry', 'term'): e.load(F('LogEntry', 'term'), 'u64', c.st),
                            F('LogEntry', 'index'): e.load(F('LogEntry', 'index'), 'u64', c.st)}, lazy=(e.lazy or 'entry') + "'")
    return r


def noop(c):
    return UNIT


def fast_path_result(c):
    return Struct('FastPathResult', {}, lazy=c.st.fresh_name('fpr'))


ex.extra_models.update({
    'RaftNode::persist_term_and_vote': persist_tv,
    'RaftNode::persist_log_entry': persist_entry,
    'RaftWal::append': nd_result,
    'RaftNode::is_peer_healthy': fresh_bool,
    'RaftNode::geometric_vote_bias': fresh_f32,
    '<LogEntry as Clone>::clone': logentry_clone,
    'FastPathState::clear_leader': noop, 'FastPathValidator::reset': noop, 'FastPathState::add_embedding': noop,
    'FastPathValidator::record_validation': noop, 'RaftStats::record_fast_path': noop,
    'RaftStats::record_full_validation': noop, 'RaftStats::record_rejected': noop,
    'FastPathValidator::check_fast_path': fast_path_result,
    'FastPathState::get_embeddings': lambda c: Seq('Vec<f32>', []),
    'SparseVector::to_dense': lambda c: Seq('f32', []),
    '<SparseVector as Clone>::clone': lambda c: c.args[0].load(c.st),
    'QuorumTracker::record_success': noop, 'QuorumTracker::record_failure': noop, 'QuorumTracker::mark_reachable': noop,
    'RaftNode::stop_heartbeat_task': noop,
    'Option::as_deref': lambda c: Enum('Option', z3.BitVec(c.st.fresh_name('asderef'), 64), {}, lazy=c.st.fresh_name('asderef')),
})

# ---------------------------------------------------------------- pre-state construction

T_PERSIST = 'parking_lot::lock_api::RwLock<parking_lot::RawRwLock, raft::PersistentState>'
T_VOLATILE = 'parking_lot::lock_api::RwLock<parking_lot::RawRwLock, raft::VolatileState>'
T_LEADERSHIP = 'parking_lot::lock_api::RwLock<parking_lot::RawRwLock, raft::LeadershipState>'


class Node:
    """handles into a lazily created RaftNode, with the pre-state symbols the oracles need"""

    def __init__(self, st, loglen, name='N'):
        self.st = st
        self.node = st.fresh('RaftNode', name)
        st.roots['node'] = self.node
        self.ptr = ref(self.node)
        st.roots['nodeptr'] = self.ptr
        P_ = self.persistent(st)
        self.term0 = P_.load(F('PersistentState', 'current_term'), 'u64', st)
        self.vote0 = P_.load(F('PersistentState', 'voted_for'), 'std::option::Option<std::string::String>', st)
        self.vote0_some = self.vote0.load(('Some', 0), 'std::string::String', st)
        self.vote0_disc = self.vote0.disc
        ents = []
        self.log0 = []
        for i in range(loglen):
            e = st.fresh('LogEntry', f'{name}.log[{i}]')
            t = e.load(F('LogEntry', 'term'), 'u64', st)
            e.fields[F('LogEntry', 'index')] = Int(U64(i + 1), False)
            ents.append(e)
            self.log0.append(t.v)
        for a, b in zip(self.log0, self.log0[1:]):
            st.assume(z3.ULE(a, b))
        if self.log0:
            st.assume(z3.ULE(self.log0[-1], self.term0.v))
        P_.fields[F('PersistentState', 'log')] = Seq('LogEntry', ents)
        P_.fields[F('PersistentState', 'log_base_index')] = Int(U64(0), False)
        V = self.volatile(st)
        self.commit0 = V.load(F('VolatileState', 'commit_index'), 'u64', st)
        st.assume(z3.ULE(self.commit0.v, U64(loglen)))
        L = self.leadership(st)
        self.role0 = L.load(F('LeadershipState', 'role'), 'raft::RaftState', st)
        self.id = self.node.load(F('RaftNode', 'node_id'), 'std::string::String', st)
        self.loglen0 = loglen

    def persistent(self, st):
        n = st.roots['node']
        return n.load(F('RaftNode', 'persistent'), T_PERSIST, st).fields['data'].load(0, None, st)

    def volatile(self, st):
        n = st.roots['node']
        return n.load(F('RaftNode', 'volatile'), T_VOLATILE, st).fields['data'].load(0, None, st)

    def leadership(self, st):
        n = st.roots['node']
        return n.load(F('RaftNode', 'leadership'), T_LEADERSHIP, st).fields['data'].load(0, None, st)

    # post-state readers (st = final state of a path)
    def term(self, st):
        return self.persistent(st).load(F('PersistentState', 'current_term'), 'u64', st).v

    def vote(self, st):
        return self.persistent(st).load(F('PersistentState', 'voted_for'), None, st)

    def log(self, st):
        s = self.persistent(st).load(F('PersistentState', 'log'), None, st)
        return [(e.load(F('LogEntry', 'term'), 'u64', st).v, e.load(F('LogEntry', 'index'), 'u64', st).v) for e in s.items(st)]

    def commit(self, st):
        return self.volatile(st).load(F('VolatileState', 'commit_index'), 'u64', st).v

    def role(self, st):
        r = self.leadership(st).load(F('LeadershipState', 'role'), 'raft::RaftState', st)
        return r.disc if not isinstance(r.disc, int) else z3.BitVecVal(r.disc, 64)


ROLE = {n: P.variant_index('RaftState', n) for n in ('Follower', 'Candidate', 'Leader')}


def disc(e):
    return e.disc if not isinstance(e.disc, int) else z3.BitVecVal(e.disc, 64)


def opt_str_eq(e, s, st):
    """Option<String> e == Some(s)"""
    d = disc(e)
    if isinstance(e.disc, int) and e.disc == 0:
        return z3.BoolVal(False)
    pv = e.load(('Some', 0), 'std::string::String', st)
    return z3.And(d == 1, pv.id == s.id)


def run(st, fname, args):
    st.frames = []
    ex.call(st, fname, args)
    return ex.run(st)


def response(r, variant):
    """payload struct of Some(Message::<variant>(payload)) returned by a handler"""
    rv = r.retval
    if not isinstance(rv, Enum) or rv.variant != 'Some':
        return None
    msg = rv.fields[('Some', 0)]
    if msg.variant != variant:
        return None
    return msg.fields[(variant, 0)]


def pre_dump(m, n, st):
    return {'term': mval(m, n.term0.v), 'voted_for': (None if mval(m, n.vote0_disc) == 0 else mval(m, n.vote0_some.id)),
            'log_terms': [mval(m, t) for t in n.log0], 'commit_index': mval(m, n.commit0.v), 'role': mval(m, disc(n.role0)),
            'node_id': mval(m, n.id.id)}


PART = os.environ.get('C01_PART', 'all')
HERE = os.path.dirname(os.path.abspath(__file__))
if PART in ('all', 'follower'):
    exec(open(os.path.join(HERE, 'c01_follower.py')).read())
if PART in ('all', 'leader'):
    exec(open(os.path.join(HERE, 'c01_leader.py')).read())
exec(open(os.path.join(HERE, 'c01_replay.py')).read())

if __name__ == '__main__':
    ck.finish()
