"""C01 — Raft safety, as per-handler inductive obligations on the real handlers' MIR.
One delivery from an arbitrary (bounded-shape) pre-state; z3 decides each obligation per path."""
import sys
import os
sys.path.insert(0, os.path.dirname(os.path.dirname(os.path.abspath(__file__))))
from props.common import *
from mirsym.models import some, none, ok, err
from mirsym.exec import copy_val

ck = Check('C01')
T = ck.tier
ex = ck.executor('tensor_chain', unroll=10, default_maxlen=2, max_paths=60000)
P = ex.prog
MAXLOG = 2 if T == 'quick' else 3
MAXENT = 2
ck.bounds = {'follower/leader log length': f'0..{MAXLOG}', 'entries per AppendEntries': f'0..{MAXENT}', 'peers in match_index': '0..2 (quick) / 0..4 (thorough)',
             'integers': '64-bit, full range unless stated', 'loop unroll': 10,
             'configuration': 'enable_fast_path / enable_geometric_tiebreak / enable_pre_vote / membership health are unconstrained symbols: all settings covered'}
ck.assumptions = [
    'representation invariant on the pre-state: log indices consecutive from log_base_index+1 with log_base_index = 0; commit_index <= log length',
    'WAL persistence (persist_term_and_vote, persist_log_entry) returns Ok or Err nondeterministically; crash/restart is C10',
    'is_peer_healthy and geometric_vote_bias return arbitrary values (membership manager and embeddings are not modelled)',
    'FastPathValidator::check_fast_path result arbitrary; fast-path statistics calls are no-ops',
    'LogEntry payload (block, config_change, codebook_change) opaque; <LogEntry as Clone>::clone copies term/index and shares the payload',
    'the composition of the per-handler facts into cluster-level safety is the textbook argument and is not machine-checked',
    'leader pre-state invariant: 1 <= next_index[p] <= log length + 1 and match_index[p] <= log length for every peer p',
    'senders of responses are members of the (fixed) configuration; responses from unknown ids are outside the property',
    'outside: snapshot install/compaction, membership change / joint consensus, leadership transfer, transport, timers',
]
exec(open(os.path.join(os.path.dirname(os.path.abspath(__file__)), 'raftcommon.py')).read())

PART = os.environ.get('C01_PART', 'all')
HERE = os.path.dirname(os.path.abspath(__file__))
if PART in ('all', 'follower'):
    exec(open(os.path.join(HERE, 'c01_follower.py')).read())
if PART in ('all', 'leader'):
    exec(open(os.path.join(HERE, 'c01_leader.py')).read())
exec(open(os.path.join(HERE, 'c01_replay.py')).read())

if __name__ == '__main__':
    ck.finish()
