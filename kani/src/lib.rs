//! Kani harnesses (E1): bit-exact execution of the `wide`-crate SIMD filter kernels against the scalar predicate.
#![allow(clippy::all)]

#[cfg(kani)]
mod simd {
    use relational_engine::verif_simd::*;

    fn scalar_i64(op: u8, v: i64, t: i64) -> bool {
        match op {
            0 => v < t,
            1 => v <= t,
            2 => v > t,
            3 => v >= t,
            4 => v == t,
            _ => v != t,
        }
    }

    macro_rules! i64_harness {
        ($name:ident, $op:expr, $n:expr, $unwind:expr) => {
            #[kani::proof]
            #[kani::unwind($unwind)]
            fn $name() {
                const N: usize = $n;
                let op: u8 = $op;
                let n: usize = kani::any();
                kani::assume(n <= N);
                let vals: [i64; N] = kani::any();
                let thr: i64 = kani::any();
                let pre: u64 = kani::any();
                let mut res = [pre];
                filter_i64(op, &vals[..n], thr, &mut res);
                let mut i = 0;
                while i < N {
                    let bit = (res[0] >> i) & 1 == 1;
                    let was = (pre >> i) & 1 == 1;
                    if i < n {
                        assert!(bit == (was || scalar_i64(op, vals[i], thr)));
                    } else {
                        assert!(bit == was);
                    }
                    i += 1;
                }
                assert!(res[0] >> N == pre >> N);
                kani::cover!(n == N && res[0] != pre);
            }
        };
    }
    // quick (q_*): one 4-lane chunk + 1 tail element; thorough (t_*): two chunks + 1 tail element
    i64_harness!(q_filter_lt_i64, 0, 5, 7);
    i64_harness!(t_filter_lt_i64, 0, 9, 11);
    i64_harness!(q_filter_le_i64, 1, 5, 7);
    i64_harness!(t_filter_le_i64, 1, 9, 11);
    i64_harness!(q_filter_gt_i64, 2, 5, 7);
    i64_harness!(t_filter_gt_i64, 2, 9, 11);
    i64_harness!(q_filter_ge_i64, 3, 5, 7);
    i64_harness!(t_filter_ge_i64, 3, 9, 11);
    i64_harness!(q_filter_eq_i64, 4, 5, 7);
    i64_harness!(t_filter_eq_i64, 4, 9, 11);
    i64_harness!(q_filter_ne_i64, 5, 5, 7);
    i64_harness!(t_filter_ne_i64, 5, 9, 11);

    #[kani::proof]
    #[kani::unwind(4)]
    fn bitmap_ops() {
        let a: [u64; 2] = kani::any();
        let b: [u64; 2] = kani::any();
        let mut r = [0u64; 2];
        bitmap_and(&a, &b, &mut r);
        assert!(r[0] == a[0] & b[0] && r[1] == a[1] & b[1]);
        bitmap_or(&a, &b, &mut r);
        assert!(r[0] == a[0] | b[0] && r[1] == a[1] | b[1]);
    }
}
